#!/bin/bash
# tools/try_mutant_wt.sh <property-id> <scratch-worktree> <patch-file> [extra ./check args]
# Like try_mutant.sh but leaves /repo alone: the patch is applied inside the scratch worktree and the check
# imports puresnmp from there (VERIF_SRC).
set -u
ID="$1"; WT="$2"; PATCH="$3"; shift 3
cd "$WT" || exit 2
git checkout -q -- src
git apply "$PATCH" || { echo "patch does not apply"; exit 2; }
echo "--- repository tests with the change:"
PYTHONPATH="$WT/src" /venv/bin/python -m pytest -q -p no:cacheprovider tests 2>&1 | tail -1
echo "--- ./check $ID $* (VERIF_SRC=$WT/src)"
cd /verif && VERIF_SRC="$WT/src" timeout 3000 ./check "$ID" "$@" 2>&1 | grep -E "VIOLATION|INCONCLUSIVE|tier=" | cut -c1-200 | head -8
cd "$WT" && git checkout -q -- src
