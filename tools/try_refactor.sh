#!/bin/bash
# tools/try_refactor.sh <scratch-worktree> <id>...   runs the quick checks against a behaviour-preserving
# refactoring that lives in a scratch worktree (no alarm expected).
WT="$1"; shift
cd /verif
for p in "$@"; do
  out=$(VERIF_SRC="$WT/src" timeout 3000 ./check "$p" 2>&1); code=$?
  echo "$p exit=$code :: $(echo "$out" | tail -1 | cut -c1-150)"
  echo "$out" | grep -E "^(VIOLATION|INCONCLUSIVE)" | cut -c1-200 | head -4
done
