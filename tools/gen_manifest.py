#!/usr/bin/env python3
"""Regenerates /verif/MANIFEST.json from the table below (kept in one place so it stays valid)."""
import json
import os

HERE = os.path.dirname(os.path.dirname(os.path.abspath(__file__)))

CLAIMED = {
    # id: (level text, level note, technique, design_ref)

    "C01": (
        "Bounded exhaustive exploration by the solver: the agent database is a vector of symbolic presence bits "
        "consulted lazily by a reference RFC 3416 agent; CrossHair/z3 enumerate every database the real "
        "Client.walk/multiwalk can distinguish within the 14-OID universe, for every ordered list of 1..3 disjoint "
        "roots, over v2c and v3 at each level, and report exhaustion ('Confirmed over all paths').",
        "Trusted: reference agent/USM engine/BER codec (validated against captured packets and RFC vectors per "
        "run), CrossHair's path enumeration, the concolic window (client runs on concrete datagrams; a fully traced "
        "twin runs at a smaller bound).",
        "solver-enumerated environments (CrossHair/z3) driving the real client; native replay",
        "DESIGN.md section 5 C01",
    ),
    "C02": (
        "As C01 with the bulk size and the agent's GETBULK truncation policy as additional solver variables; the "
        "real Client.bulkwalk result is compared with the database-derived set and with the GETNEXT walk in the "
        "same path.",
        "As C01. Known findings F02 / F15 are suppressed by run-signature only.",
        "solver-enumerated environments (CrossHair/z3) driving the real client; native replay",
        "DESIGN.md section 5 C02",
    ),
    "C03": (
        "The agent is an arbitrary answer function whose values are solver variables assigned lazily per distinct "
        "question; CrossHair/z3 enumerate every function the run can distinguish within the bound; termination is "
        "a request budget derived from the OIDs revealed, so a non-terminating walk is a finite counter-example.",
        "Trusted: as C01. Beyond the stated number of arbitrary answers the function is fixed to endOfMibView.",
        "solver-enumerated adversarial agent functions (CrossHair/z3); native replay",
        "DESIGN.md section 5 C03",
    ),
    "C04": (
        "Symbolic database, request list, non-repeaters/max-repetitions, SET value selector and response tampering; "
        "exhaustive within the bound by CrossHair/z3; oracle = reference agent's database and independently decoded "
        "request log.",
        "Trusted: as C01; where the statement is silent (get-next of the last object, v1 noSuchName) any exception is accepted.",
        "solver-enumerated environments (CrossHair/z3) driving the real client; native replay",
        "DESIGN.md section 5 C04",
    ),

    "C05": (
        "Symbolic execution of the real encoders: request-id, max-repetitions, SET values and OID sub-identifiers "
        "are symbolic through PDU.encode_raw / BulkGetRequest.__bytes__ / the message wrappers / x690; the emitted "
        "(symbolic) datagram is parsed by an independent decoder, also executed symbolically, and z3 proves it reads "
        "back as the intended request on every path; kernel obligations cover full numeric ranges.",
        "Trusted: ref/ber.py as the RFC decoder, CrossHair + plug-ins. Under authentication the HMAC is computed by C "
        "code, so ids come from a solver-chosen boundary set there.",
        "symbolic execution of the real encoders with z3 (CrossHair), independent decoder as oracle",
        "DESIGN.md section 5 C05",
    ),
    "C06": (
        "Symbolic content octets and solver-chosen length forms flow through the real decode path (mpm.decode, lazy "
        "PDU.decode_raw, x690, every decode_raw) up to the caller of Client.multiget; class identity and value are "
        "compared with the independent decoder's reading of the same symbolic bytes; re-encoding of PDU / scoped PDU "
        "/ USM parameters / message is parsed independently and must give the same content tree.",
        "Trusted: ref/ber.py, CrossHair + plug-ins. OID text rendering and 65000-octet strings are table-driven "
        "(solver-chosen) because they force realisation. Known finding F18 (x690) suppressed by signature.",
        "symbolic execution of the real decoders with z3 (CrossHair), independent decoder as oracle",
        "DESIGN.md section 5 C06",
    ),
    "C07": (
        "The clock behind get_request_id is a stub with solver-chosen ticks per read, the reply's request-id offset, "
        "community, version and the discovery reply's message id are solver variables; every schedule within the "
        "bound is enumerated by CrossHair/z3 against the real operations over v1/v2c/v3.",
        "Trusted: as C01. Clock model: non-decreasing, at most one tick per read within the first 6 reads.",
        "solver-enumerated clock schedules and replies (CrossHair/z3); native replay",
        "DESIGN.md section 5 C07",
    ),
    "C08": (
        "error-status, error-index and the number of bindings in the error response are solver variables; every "
        "combination in two stated boxes is enumerated by CrossHair/z3 for every operation and protocol version and "
        "compared with an RFC 3416 table written out in the harness.",
        "Trusted: as C01. Status values outside the listed set are outside the claim (dict lookup forces enumeration).",
        "solver-enumerated error responses (CrossHair/z3) against the real decode path; native replay",
        "DESIGN.md section 5 C08",
    ),

    "C09": (
        "Unit level: CrossHair/z3 execute the real process_incoming_message / verify_authentication / decrypt_message / "
        "validate_usm_message over all flag combinations with an ideal MAC (symbolic verdict) and prove that acceptance "
        "implies the MAC was consulted and said yes and that a Report is never returned. End to end with the real HMAC: "
        "a solver-chosen attacker action (octet substitution by position and value, truncation, flags byte, digest forgery, "
        "foreign identity, plaintext under privacy credentials, Report for Response) on an authentic response must yield "
        "an exception or exactly the authentic result; exhaustive within the stated sets.",
        "Assumes HMAC-MD5-96 / HMAC-SHA-96 unforgeable. Trusted: reference USM engine (RFC 3414 A.3 vectors per run).",
        "symbolic execution of the USM input path with an ideal-MAC stub (CrossHair/z3) + solver-enumerated attacker actions",
        "DESIGN.md section 5 C09",
    ),
    "C10": (
        "Password length, engine-id length, operation and response padding are solver variables (exhaustive within the "
        "ranges); every emitted request must be accepted by an independent RFC 3412/3414 engine (flags, reportable, security "
        "parameters, digest over the octets as sent) and every response it produces in minimal BER must be accepted; the "
        "RFC 3414 A.2 expansion buffer is checked through the documented hash_implementation parameter.",
        "Trusted: ref/usm.py. Known finding F08 (digest over a re-serialisation, TLV content length 127) suppressed by signature.",
        "solver-enumerated configurations (CrossHair/z3) against an independent USM engine with the real hashes",
        "DESIGN.md section 5 C10",
    ),
    "C11": (
        "A recording keyed stream cipher in the plug-in namespace; operation, context name, hash and SET payload are solver "
        "variables; each datagram is examined by the independent decoder: msgData = the plug-in's cipher-text of exactly the "
        "scoped PDU, salt, key (privacy password localised with the authentication hash), boots/time, no plaintext on the "
        "wire; responses decrypted with the parameters found in the message. A traced job keeps the SET payload octets "
        "symbolic through apply_encryption and the plug-in's XOR.",
        "Trusted: ref/usm.py, the harness cipher. The traced job replaces the authentication plug-in by a constant digest.",
        "solver-enumerated configurations + symbolic payload through the encryption path (CrossHair/z3)",
        "DESIGN.md section 5 C11",
    ),
    "C12": (
        "One virtual clock drives the client's clocks and the reference engine's snmpEngineTime; the history (clock advance "
        "before each operation, reboots, discovery reply variants) is solver-chosen and enumerated exhaustively within the "
        "bound; a traced job carries symbolic boots / time / advance through the Report, the client's cache and arithmetic "
        "and the next request, z3 proving the 150-second window inequality on the decoded security parameters.",
        "Trusted: ref/usm.py window check. Known finding F19 (no re-synchronisation after an agent reboot) suppressed by signature.",
        "solver-enumerated histories under virtual time + symbolic timing values through the real code (CrossHair/z3)",
        "DESIGN.md section 5 C12",
    ),

    "C13": (
        "The real send_udp / SNMPClientProtocol run on a real asyncio loop with a virtual-time selector and scripted "
        "endpoints; the per-attempt fault schedule, retry budget and timeout are solver variables enumerated exhaustively; "
        "transmissions, virtual time of return / Timeout and open sockets are read from the transports' log.",
        "Trusted: the scripted-transport model of asyncio's selector datagram transport. Real loop-back sockets are outside.",
        "solver-enumerated fault schedules (CrossHair/z3) on a virtual-time event loop",
        "DESIGN.md section 5 C13",
    ),
    "C14": (
        "Operations are held suspended at their exchanges by a trampoline; a solver variable per step picks which pending "
        "exchange completes next, so every interleaving (within 16 / 22 steps) is a path; each result must equal the result "
        "of the operation run alone, and over v3 every datagram must be accepted by the reference engine.",
        "Trusted: as C01. Scheduling granularity = network exchanges (the only suspension points of the client).",
        "solver-enumerated interleavings (CrossHair/z3) of suspended coroutines",
        "DESIGN.md section 5 C14",
    ),
    "C15": (
        "Symbolic database and value-type rotation; every PyWrapper operation's result is type-walked recursively "
        "(dictionary keys included) and compared with the pythonised raw result of the same exchange.",
        "Trusted: as C01.",
        "solver-enumerated environments (CrossHair/z3) driving the real wrapper",
        "DESIGN.md section 5 C15",
    ),
    "C16": (
        "One presence bit per table cell (sparse columns, multi-component indexes), neighbours and bulk size symbolic; "
        "table / bulktable / their wrapper counterparts compared with database-derived rows and with each other, "
        "exhaustively within the bound.",
        "Trusted: as C01.",
        "solver-enumerated tables (CrossHair/z3) driving the real client",
        "DESIGN.md section 5 C16",
    ),
    "C18": (
        "Histories of configure / reconfigure-enter / exit (normal, exceptional) / request / unknown-setting (alone or combined with new credentials) steps are "
        "chosen step by step by solver variables and enumerated exhaustively up to 5 / 6 steps against a reference stack "
        "model; a traced job carries symbolic timeout / retries through replace(), the context manager and the sender.",
        "Trusted: as C01.",
        "solver-enumerated histories (CrossHair/z3) + symbolic settings through the real code",
        "DESIGN.md section 5 C18",
    ),
    "C19": (
        "Sequences of valid / foreign-community / truncated / garbage datagrams and their source addresses are solver "
        "variables; they are delivered through the real SNMPTrapReceiverProtocol and register_trap_callback decode "
        "closure inside a real asyncio loop; the callback log must equal the matching notifications with origin and bindings.",
        "Trusted: as C01; listen() is stubbed (no socket). Known finding F14 (x690) by signature.",
        "solver-enumerated datagram sequences (CrossHair/z3) through the real trap path",
        "DESIGN.md section 5 C19",
    ),
    "C20": (
        "Termination as an assertion: x690's decode is wrapped by a call budget proportional to the datagram size; the "
        "corruption (position and value of one octet, truncation point, nesting depth, every short datagram) is a solver "
        "variable enumerated exhaustively over 9 entry points (v1/v2c/v3 responses with real and ideal MAC, discovery "
        "reply, trap listener); after each datagram a valid exchange must succeed.",
        "Trusted: decode calls as the proxy for time and memory. Known finding F14 (x690 indefinite length) by signature.",
        "solver-enumerated corruptions (CrossHair/z3) with a decode-call budget turning non-termination into a counter-example",
        "DESIGN.md section 5 C20",
    ),
    "C17": (
        "Bounded symbolic execution (CrossHair/z3) of the real constructors, encoders and decoders proves the "
        "wrap/clamp, unsigned-decode and round-trip post-conditions over every path for all integers / all "
        "content octets in the stated sizes; the TimeTicks<->timedelta conversions are decided for all 2^32 ticks "
        "by z3 on formulas generated from the functions' AST (IEEE error model, exact QF_FP on a dense prefix).",
        "Trusted: CrossHair's model of CPython, z3 (cvc5 cross-check on the LRA queries), the bit-operation "
        "plug-in (identity proved per run), CPython's documented timedelta(float) algorithm.",
        "symbolic execution of real code with z3 (CrossHair) + AST-to-SMT translation (LRA/QF_FP)",
        "DESIGN.md section 5 C17",
    ),
}

PENDING_REASON = "check not built yet in this revision (solver-based harness planned, see DESIGN.md section 5)"


def main():
    props = [json.loads(l) for l in open(os.path.join(HERE, "properties.jsonl"))]
    checks = []
    na = []
    extra_na = globals().get("NOT_APPLICABLE", {})
    for p in props:
        pid = p["id"]
        if pid in CLAIMED:
            text, note, technique, ref = CLAIMED[pid]
            checks.append({
                "property_id": pid,
                "quick_cmd": f"./check {pid} --tier quick",
                "thorough_cmd": f"./check {pid} --tier thorough",
                "evidence_file": f"/verif/evidence/{pid}.json",
                "replay_cmd_template": f"./check {pid} --replay {{path}}",
                "engine": "crosshair-z3",
                "level_claimed": {"category": "other", "text": text, "design_ref": ref},
                "level_note": note,
                "technique": technique,
            })
        else:
            na.append({"property_id": pid, "reason": extra_na.get(pid, PENDING_REASON)})
    manifest = {
        "version": 1,
        "setup_cmd": "./engine/bootstrap.sh && ./.venv/bin/python -m engine.selftest",
        "hooks": {
            "guard": "PURESNMP_VERIF",
            "enable": "no source hooks: every seam is public API (Client(sender=...), plug-in namespaces) or a "
                      "module attribute replaced inside the checking process only",
            "baseline_off_cmd": "cd /repo && /venv/bin/python -m pytest -ra -q -p no:cacheprovider --timeout=900 "
                                "--continue-on-collection-errors",
            "source_commits": [],
            "add_only": True,
        },
        "engines": [
            {"name": "crosshair-z3", "path": "engine/", "serves_properties": sorted(CLAIMED),
             "kind_free_text": "CrossHair 0.0.110 symbolic execution of the real puresnmp/x690 functions (z3), "
                               "plus AST-to-SMT translation for float kernels (z3, cvc5); native replay of every "
                               "counter-example"},
        ],
        "checks": checks,
        "not_applicable": na,
        "notes": "All checks: ./check <id> [--tier quick|thorough] [--replay FILE]; exit 0 = held on everything "
                 "explored (inconclusive jobs are listed in the evidence, never alarm), exit 1 + VIOLATION line = "
                 "a counter-example that reproduces natively and is not listed in known_findings.json.",
    }
    with open(os.path.join(HERE, "MANIFEST.json"), "w") as fh:
        json.dump(manifest, fh, indent=1)
    print("claimed:", sorted(CLAIMED), "pending:", [x["property_id"] for x in na])


if __name__ == "__main__":
    main()
