#!/bin/bash
# tools/run_all.sh [quick|thorough] [ids...]: runs the checks one after the other, prints one line each.
TIER="${1:-quick}"; shift
IDS="${*:-C01 C02 C03 C04 C05 C06 C07 C08 C09 C10 C11 C12 C13 C14 C15 C16 C17 C18 C19 C20}"
cd "$(dirname "$0")/.."
for p in $IDS; do
  start=$(date +%s)
  out=$(./check "$p" --tier "$TIER" 2>&1); code=$?
  echo "$p exit=$code $(( $(date +%s) - start ))s :: $(echo "$out" | tail -1 | cut -c1-170)"
  echo "$out" | grep -E "^(VIOLATION|INCONCLUSIVE)" | cut -c1-220 | head -5
done
