#!/bin/bash
# tools/try_mutant.sh <property-id> <patch-file> [extra ./check args]
# Applies a seeded change to /repo, runs the repository tests and the property's check, and undoes it.
set -u
ID="$1"; PATCH="$2"; shift 2
cd /repo || exit 2
if [ -n "$(git status --porcelain)" ]; then echo "/repo is not clean"; exit 2; fi
git apply "$PATCH" || { echo "patch does not apply"; exit 2; }
echo "--- repository tests with the change:"
/venv/bin/python -m pytest -q -p no:cacheprovider tests 2>&1 | tail -1
echo "--- ./check $ID $*"
cd /verif && timeout 3000 ./check "$ID" "$@" 2>&1 | grep -E "VIOLATION|KNOWN-FINDING|INCONCLUSIVE|tier=" | cut -c1-260 | head -12
cd /repo && git checkout -- . && git status --porcelain
