"""Shared harness plumbing: clients on the trampoline, value conversion, universes."""
from __future__ import annotations

import itertools
from typing import Any, Callable, Dict, List, Optional, Sequence, Tuple

from ref import ber, tramp
from ref.agent import Agent, BulkPolicy, Database
from ref import usm as rusm

PREFIX = (1, 3, 6, 1, 2, 1)


def O(suffix: str) -> ber.Oid:  # noqa: E743
    return PREFIX + ber.oid(suffix)


# ---------------------------------------------------------------------------
# deterministic request ids
# ---------------------------------------------------------------------------
class RequestIds:
    """Pins every ``get_request_id`` name used by puresnmp to a counter."""

    def __init__(self, start: int = 1000) -> None:
        self.next = start
        self.installed: List[Tuple[Any, str, Any]] = []

    def __call__(self) -> int:
        self.next += 1
        return self.next

    def install(self) -> "RequestIds":
        import puresnmp.api.raw as raw
        import puresnmp.util as util
        import puresnmp_plugins.security.usm as pusm
        for mod in (raw, util, pusm):
            if hasattr(mod, "get_request_id"):
                self.installed.append((mod, "get_request_id", getattr(mod, "get_request_id")))
                setattr(mod, "get_request_id", self)
        return self

    def remove(self) -> None:
        for mod, name, orig in self.installed:
            setattr(mod, name, orig)
        self.installed = []


def seam_check() -> Optional[str]:
    """The seams the harnesses rely on; a missing one makes a job inconclusive, not failing."""
    import puresnmp.api.raw as raw
    missing = []
    if not hasattr(raw, "get_request_id"):
        missing.append("puresnmp.api.raw.get_request_id")
    import inspect
    if "sender" not in inspect.signature(raw.Client.__init__).parameters:
        missing.append("Client(sender=...)")
    return ", ".join(missing) or None


class SeamMissing(Exception):
    pass


# ---------------------------------------------------------------------------
# value conversion  puresnmp <-> reference model
# ---------------------------------------------------------------------------
def to_ref(obj: Any) -> tuple:
    """Exact-type conversion of an x690/puresnmp value to the reference model."""
    from x690 import types as xt
    from puresnmp import types as pt
    from puresnmp import pdu as pp
    t = type(obj)
    if t is xt.Integer:
        return ("int", obj.value)
    if t is xt.OctetString:
        return ("str", bytes(obj.value))
    if t is xt.Null:
        return ("null",)
    if t is xt.ObjectIdentifier:
        return ("oid", tuple(obj.nodes))
    if t is pt.IpAddress:
        return ("ip", obj.value.packed)
    if t is pt.Counter:
        return ("c32", obj.value)
    if t is pt.Gauge:
        return ("g32", obj.value)
    if t is pt.TimeTicks:
        return ("tt", obj.value)
    if t is pt.Opaque:
        return ("opaque", bytes(obj.value))
    if t is pt.Counter64:
        return ("c64", obj.value)
    if t is pp.NoSuchObject:
        return ("nso",)
    if t is pp.NoSuchInstance:
        return ("nsi",)
    if t is pp.EndOfMibView:
        return ("eomv",)
    return ("other", t.__name__, repr(obj))


def from_ref(val: tuple) -> Any:
    from ipaddress import IPv4Address
    from x690 import types as xt
    from puresnmp import types as pt
    kind = val[0]
    if kind == "int":
        return xt.Integer(val[1])
    if kind == "str":
        return xt.OctetString(val[1])
    if kind == "null":
        return xt.Null()
    if kind == "oid":
        return xt.ObjectIdentifier(ber.oid_str(val[1]))
    if kind == "ip":
        return pt.IpAddress(IPv4Address(bytes(val[1])))
    if kind == "c32":
        return pt.Counter(val[1])
    if kind == "g32":
        return pt.Gauge(val[1])
    if kind == "tt":
        return pt.TimeTicks(val[1])
    if kind == "opaque":
        return pt.Opaque(val[1])
    if kind == "c64":
        return pt.Counter64(val[1])
    raise ValueError(kind)


def poid(nodes: Sequence[int]) -> Any:
    from x690.types import ObjectIdentifier
    return ObjectIdentifier(ber.oid_str(nodes))


def vb_to_ref(vb: Any) -> Tuple[ber.Oid, tuple]:
    from x690.types import ObjectIdentifier
    oid, value = vb
    if type(oid) is not ObjectIdentifier:
        return (("bad-oid-type", type(oid).__name__), to_ref(value))  # type: ignore
    return (tuple(oid.nodes), to_ref(value))


# ---------------------------------------------------------------------------
# clients
# ---------------------------------------------------------------------------
ENGINE_ID = bytes.fromhex("80001f8880e1c1a55d0a9b5e61")
USERS = {
    "noauth": rusm.User(b"nouser"),
    "md5": rusm.User(b"md5user", "md5", b"md5-auth-password"),
    "sha1": rusm.User(b"shauser", "sha1", b"sha-auth-password"),
    "md5priv": rusm.User(b"md5privuser", "md5", b"md5-auth-password", b"the-priv-password"),
    "sha1priv": rusm.User(b"shaprivuser", "sha1", b"sha-auth-password-2", b"other-priv-password"),
    # two users sharing one privacy password (and engine) but not the authentication hash
    "md5privS": rusm.User(b"md5sharedpriv", "md5", b"md5-auth-password-3", b"shared-priv-password"),
    "sha1privS": rusm.User(b"shasharedpriv", "sha1", b"sha-auth-password-3", b"shared-priv-password"),
}
PRIV_METHOD = "verifstream"


def install_priv_plugin(cipher: rusm.StreamCipher) -> None:
    """Put the harness privacy plug-in into the ``puresnmp_plugins.priv`` namespace."""
    import importlib
    import os
    import sys
    plugdir = os.path.join(os.path.dirname(os.path.dirname(os.path.abspath(__file__))), "harness_plugins")
    if plugdir not in sys.path:
        sys.path.append(plugdir)
        importlib.invalidate_caches()
    mod = importlib.import_module("puresnmp_plugins.priv.verifstream")
    mod.CIPHER = cipher


def credentials_for(kind: str) -> Any:
    """kind: v1 | v2c | noauth | md5 | sha1 | md5priv | sha1priv"""
    from puresnmp.credentials import V1, V2C, V3, Auth, Priv
    if kind == "v1":
        return V1("public")
    if kind == "v2c":
        return V2C("public")
    user = USERS[kind]
    auth = Auth(user.auth_password, user.auth_proto) if user.auth_proto else None
    priv = Priv(user.priv_password, PRIV_METHOD) if user.priv_password is not None else None
    return V3(user.name.decode("ascii"), auth, priv)


class World:
    """A client on the trampoline talking to a reference agent (v1/v2c) or engine (v3)."""

    def __init__(self, kind: str, db: Database, bulk_policy: Optional[BulkPolicy] = None,
                 clock: Optional[Callable[[], int]] = None, boots: int = 7,
                 context_name: bytes = b"", engine_id: bytes = b"", pin_ids: bool = True,
                 credentials: Any = None, agent_engine_id: Optional[bytes] = None) -> None:
        import warnings
        warnings.simplefilter("ignore")
        from puresnmp.api.raw import Client
        self.kind = kind
        self.rids = RequestIds()
        if pin_ids:
            self.rids.install()
        self._pinned: List[Tuple[Any, str, Any]] = []
        self._pin_monotonic()
        version = {"v1": 0, "v2c": 1}.get(kind, 3)
        self.agent = Agent(db, version=version if version != 3 else 1, bulk_policy=bulk_policy)
        self.engine: Optional[rusm.Engine] = None
        self.cipher = rusm.StreamCipher()          # the client's privacy plug-in
        self.engine_cipher = rusm.StreamCipher()   # the reference engine's own instance
        self.engine_cipher.counter = 1000
        if version == 3:
            users = [u._replace(cipher=self.engine_cipher) for u in USERS.values()]
            self.engine = rusm.Engine(self.agent, agent_engine_id or ENGINE_ID, users, boots=boots, clock=clock or (lambda: 1000))
            if "priv" in kind:
                install_priv_plugin(self.cipher)
        self.exchanges: List[Tuple[bytes, bytes]] = []
        self.flags: set = set()
        self.sender_kwargs: List[dict] = []
        self.client = Client("192.0.2.1", credentials or credentials_for(kind), sender=tramp.sender,
                             context_name=context_name, engine_id=engine_id)

    def answer(self, req: tramp.Request) -> bytes:
        self.sender_kwargs.append(dict(req.kw))
        data = req.data
        resp = self.engine.handle(data) if self.engine is not None else self.agent.handle(data)
        if self.engine is not None and len(resp) > 8 and rusm.len127_spots(resp):
            # run-signature of known finding F08 (digest over a re-serialisation)
            try:
                if ber.dec_v3_msg(resp).flags % 4 >= 1:
                    self.flags.add("v3:auth-response-len127")
            except ber.BerError:
                pass
        if self.engine is not None and self.engine.response_form != 0:
            # run-signature of known finding F21 (same root cause as F08): an authenticated response that is
            # not in the library's own canonical (minimal-length) encoding
            try:
                if len(resp) > 8 and ber.dec_v3_msg(resp).flags % 4 >= 1:
                    self.flags.add("v3:auth-response-nonminimal")
            except ber.BerError:
                pass
        self.exchanges.append((bytes(data), bytes(resp)))
        return resp

    def run(self, coro, budget: int = 200):
        return tramp.drive(coro, self.answer, budget=budget)

    def collect(self, agen, budget: int = 200):
        return tramp.drain(agen, self.answer, budget=budget)

    def _pin_monotonic(self) -> None:
        """
        Names bound to time.monotonic / time.perf_counter inside puresnmp modules are pinned to a constant
        (CrossHair replaces the real ones by non-deterministic stubs under tracing); harnesses that are about
        time install their own virtual clock before creating the world, which this leaves alone.
        """
        import sys
        import time as _time
        import_all_puresnmp()
        originals = (_time.monotonic, _time.perf_counter)
        for modname, mod in list(sys.modules.items()):
            if modname.startswith("puresnmp") and mod is not None:
                for attr, val in list(vars(mod).items()):
                    if any(val is o for o in originals):
                        self._pinned.append((mod, attr, val))
                        setattr(mod, attr, lambda: 5000.0)

    def close(self) -> None:
        self.rids.remove()
        for mod, attr, val in reversed(self._pinned):
            setattr(mod, attr, val)
        self._pinned = []

    def known_exception(self, exc: BaseException) -> Optional[str]:
        """Known-finding id whose run-signature this exception + run matches, if any."""
        if type(exc).__name__ == "AuthenticationError" and "v3:auth-response-len127" in self.flags:
            return "F08"
        if type(exc).__name__ == "AuthenticationError" and "v3:auth-response-nonminimal" in self.flags:
            return "F21"
        return None

    # number of non-discovery requests the agent processed
    @property
    def n_requests(self) -> int:
        return len(self.agent.requests)


# ---------------------------------------------------------------------------
# universes
# ---------------------------------------------------------------------------
def value_for(i: int) -> tuple:
    """A small rotation through every SNMP value type (deterministic per index)."""
    kinds = [("int", -5 + i), ("str", b"v%d" % i), ("oid", (1, 3, 6, 1, 4, 1, 8072, i)), ("ip", bytes([192, 0, 2, i % 256])),
             ("c32", 4000000000 + i), ("g32", 70000 + i), ("tt", 123456 + i), ("opaque", b"\x9f\x78" + bytes([i % 256])),
             ("c64", 2 ** 63 + i), ("str", b""), ("int", 2 ** 31 - 1 - i), ("null",)]
    return kinds[i % len(kinds)]


U14 = [O(s) for s in ("1.9.0", "2.1", "2.1.1", "2.1.2", "2.1.2.1", "2.1.10", "2.2.1", "2.2.3", "2.3.1",
                      "2.10.1", "4.1.0", "4.1.1", "4.2.0", "9.1")]
ROOTS = {"A": O("2.1"), "B": O("2.2"), "C": O("4"), "D": O("2.10"), "E": O("3"), "Z": O("99")}


def root_lists(max_len: int, names: str = "ABCDEZ") -> List[Tuple[str, ...]]:
    out: List[Tuple[str, ...]] = []
    for n in range(1, max_len + 1):
        out.extend(itertools.permutations(names, n))
    return out


def below(oid: ber.Oid, root: ber.Oid) -> bool:
    return len(oid) > len(root) and oid[:len(root)] == root


# ---------------------------------------------------------------------------
# decode-call budget (C09, C19, C20): non-termination becomes an exception
# ---------------------------------------------------------------------------
class BudgetExceeded(Exception):
    pass


def import_all_puresnmp() -> None:
    """Load every puresnmp module (plug-ins are imported lazily) so that module-level seams can be patched."""
    import importlib
    import pkgutil
    for pkgname in ("puresnmp", "puresnmp.api", "puresnmp.plugins", "puresnmp_plugins.mpm", "puresnmp_plugins.security",
                    "puresnmp_plugins.auth", "puresnmp_plugins.priv"):
        try:
            pkg = importlib.import_module(pkgname)
        except ImportError:
            continue
        for info in pkgutil.iter_modules(pkg.__path__, pkgname + "."):
            if "verifstream" in info.name or info.name.endswith("__main__"):
                continue
            try:
                importlib.import_module(info.name)
            except Exception:  # noqa: BLE001
                pass


class DecodeBudget:
    """
    Counts calls of x690's ``decode`` (every name it is bound to in x690 and
    puresnmp) and raises `BudgetExceeded` beyond *limit*.  x690's TLV walking
    (Sequence.decode_raw, get_value_slice) goes through that function once per
    element, so a parse that loops or re-scans without progress exceeds any
    budget proportional to the datagram size.
    """

    MODULES = ["x690.types", "x690", "puresnmp.pdu", "puresnmp.adt", "puresnmp_plugins.security.usm",
               "puresnmp_plugins.mpm.v1", "puresnmp_plugins.mpm.v2c"]

    def __init__(self, limit: int) -> None:
        self.limit = limit
        self.calls = 0
        self.indefinite = False   # run-signature of known finding F14
        self.saved: List[Tuple[Any, str, Any]] = []

    def __enter__(self) -> "DecodeBudget":
        import importlib
        import x690.types as xt
        import x690.util as xu
        import_all_puresnmp()   # a module imported inside the block would keep the counting wrapper for good
        orig = xt.decode
        budget = self

        def counted(*a, **kw):
            budget.calls += 1
            if budget.calls > budget.limit:
                raise BudgetExceeded("more than %d decode calls" % budget.limit)
            return orig(*a, **kw)

        counted.__wrapped__ = orig  # type: ignore
        for name in self.MODULES:
            try:
                mod = importlib.import_module(name)
            except ImportError:
                continue
            if getattr(mod, "decode", None) is orig:
                self.saved.append((mod, "decode", orig))
                setattr(mod, "decode", counted)
        orig_len = xu.decode_length

        def watched_len(data, index=0):
            res = orig_len(data, index)
            if res[0] == -1:
                budget.indefinite = True
            return res

        for mod in (xu,):
            self.saved.append((mod, "decode_length", orig_len))
            setattr(mod, "decode_length", watched_len)
        return self

    def __exit__(self, *exc) -> bool:
        for mod, name, orig in reversed(self.saved):
            setattr(mod, name, orig)
        self.saved = []
        return False
