"""C19 Registered trap listeners receive every matching notification, with its origin."""
from engine.core import Arg, Job, choose, known, reached, window
from props import common as C
from ref import ber

META = {
    "explanation": (
        "The real register_trap_callback runs with puresnmp.api.raw.listen replaced by a stub that hands back the "
        "decode closure; datagrams are delivered through the real SNMPTrapReceiverProtocol.datagram_received inside "
        "a real asyncio loop (callbacks scheduled with ensure_future are run). The sequence of datagrams -- valid "
        "SNMPv2c notifications with 0..3 payload bindings of solver-chosen types, the same with a foreign community, "
        "truncations at solver-chosen points, garbage octets -- and the source addresses are solver variables; "
        "CrossHair/z3 enumerate every sequence within the bound. The callback log must equal the valid matching "
        "datagrams, once each, in order, with the sender's address and exactly the bindings sent (uptime, trap OID, "
        "payload), also through the pythonic TrapInfo view."),
    "bounds": ["sequences of 1..3 datagrams (quick: 1..2 fully, 3 with a fixed first)", "valid notification: 0..3 payload bindings, value-type rotation 0..3",
               "6 foreign communities (other, prefix, extension, empty, other case, one letter); truncation at 4 points; 6 garbage strings", "2 source addresses"],
    "outside": ["a real UDP socket", "SNMPv1 Trap-PDUs and SNMPv3 notifications", "arbitrary malformed datagrams (C20)"],
    "stubs": ["puresnmp.api.raw.listen -> stub capturing the decode closure", "x690.decode call budget (a parse that does not terminate counts as 'listener stopped')"],
    "assumptions": ["exceptions raised inside datagram_received are reported to the event loop's exception handler and do not stop the loop (asyncio semantics)"],
}

UPTIME = C.O("1.3.0")
TRAPOID_KEY = ber.oid("1.3.6.1.6.3.1.1.4.1.0")
TRAP_OID = ber.oid("1.3.6.1.6.3.1.1.5.3")
FOREIGN = [b"private", b"publi", b"public1", b"", b"Public", b"p"]
GARBAGE = [b"", b"\x30", b"\x30\x80", b"\xff\xff", b"\x30\x05\x02\x01\x01", b"\x30\x84\xff\xff\xff\xff"]
ADDRS = [("192.0.2.10", 40001), ("2001:db8::7", 162, 0, 0)]   # (an AF_INET6 socket reports host, port, flowinfo, scope id)
PAYLOAD = [("str", b"link down"), ("int", 2), ("oid", (1, 3, 6, 1, 2, 1, 2, 2, 1, 1, 7)), ("ip", bytes([10, 0, 0, 9])), ("c32", 99), ("tt", 4242),
           ("c64", 2 ** 40), ("opaque", b"\x00")]


def notification(npayload, rot, community=b"public", rid=12345):
    vbs = [(UPTIME, ("tt", 5000 + rot)), (TRAPOID_KEY, ("oid", TRAP_OID))]
    for j in range(npayload):
        vbs.append((C.O("2.2.1.%d.%d" % (j + 1, rot)), PAYLOAD[(rot * 2 + j) % len(PAYLOAD)]))
    return ber.enc_community_msg(1, community, ber.enc_pdu(ber.P_TRAP, rid, 0, 0, vbs)), vbs


def make_harness(nmax):
    def h(*args):
        import asyncio
        import puresnmp.api.raw as raw
        from puresnmp.api.pythonic import TrapInfo
        from puresnmp.credentials import V2C
        from puresnmp.transport import SNMPTrapReceiverProtocol
        problem = None
        with window():
            n = choose(args[0], 1, nmax)
            plan = []
            for k in range(n):
                kind_sym, a_sym, b_sym, addr_sym = args[1 + 4 * k: 5 + 4 * k]
                kind = choose(kind_sym, 0, 3)
                addr = ADDRS[choose(addr_sym, 0, 1)]
                if kind == 0:
                    npl, rot = choose(a_sym, 0, 3), choose(b_sym, 0, 3)
                    data, vbs = notification(npl, rot, rid=1000 + k)
                    plan.append((data, addr, vbs))
                elif kind == 1:
                    foreign = FOREIGN[choose(a_sym, 0, len(FOREIGN) - 1)]
                    data, vbs = notification(1, choose(b_sym, 0, 3), community=foreign)
                    plan.append((data, addr, None))
                elif kind == 2:
                    data, vbs = notification(2, 1)
                    cut = [1, 2, len(data) // 2, len(data) - 1][choose(a_sym, 0, 3)]
                    plan.append((data[:cut], addr, None))
                else:
                    plan.append((GARBAGE[choose(a_sym, 0, len(GARBAGE) - 1)], addr, None))
            received = []
            captured = []

            async def callback(trap):
                received.append(trap)

            async def fake_listen(bind_address, port, cb, loop=None):
                captured.append(cb)

            loop = asyncio.new_event_loop()
            loop_errors = []
            loop.set_exception_handler(lambda lp, ctx: loop_errors.append(ctx))
            from engine.core import seam
            saved = seam(raw, "listen")
            raw.listen = fake_listen
            hung_f14 = False
            try:
                asyncio.set_event_loop(loop)
                raw.register_trap_callback(callback, "127.0.0.1", 16200, V2C("public"), loop)
                if len(captured) != 1:
                    problem = "register_trap_callback did not start a listener"
                else:
                    proto = SNMPTrapReceiverProtocol(captured[0])
                    for data, addr, _ in plan:
                        with C.DecodeBudget(8 * len(data) + 64) as budget:
                            def deliver(d=data, a=addr):
                                proto.datagram_received(d, a)
                            loop.call_soon(deliver)
                            loop.run_until_complete(asyncio.sleep(0))
                            loop.run_until_complete(asyncio.sleep(0))
                        if budget.calls > budget.limit:
                            if budget.indefinite and known("F14"):
                                hung_f14 = True
                                break
                            problem = "processing of datagram %r did not terminate within the decode budget" % (data,)
                            break
            finally:
                raw.listen = saved
                asyncio.set_event_loop(None)
                loop.close()
            if problem is None and not hung_f14:
                want = [(a, v) for (_d, a, v) in plan if v is not None]
                if len(received) != len(want):
                    problem = "callback invoked %d times for %d matching notifications (%d datagrams); loop errors: %s" % (
                        len(received), len(want), len(plan), [repr(e.get("exception")) for e in loop_errors][:3])
                else:
                    for trap, (addr, vbs) in zip(received, want):
                        got = [C.vb_to_ref(vb) for vb in trap.value.varbinds]
                        if got != vbs:
                            problem = "bindings %r, sent %r" % (got, vbs)
                            break
                        src = getattr(trap, "source", None)
                        if src is None or (src.address, src.port) != addr[:2]:
                            problem = "trap.source %r, sender %r" % (src, addr)
                            break
                        info = TrapInfo(trap)
                        want_values = {ber.oid_str(o): C.from_ref(v).pythonize() for o, v in vbs[2:]}
                        if info.origin != addr[0] or info.oid != ber.oid_str(TRAP_OID) or info.values != want_values \
                                or info.uptime != C.from_ref(vbs[0][1]).pythonize():
                            problem = "TrapInfo origin/oid/uptime/values %r %r %r %r" % (info.origin, info.oid, info.uptime, info.values)
                            break
        reached()
        if problem:
            h.last_problem = problem
            return False
        return True

    return h


def jobs(tier):
    quick = tier == "quick"
    funcs = ["puresnmp.api.raw:register_trap_callback", "puresnmp.transport:SNMPTrapReceiverProtocol.datagram_received",
             "puresnmp_plugins.mpm.v2c:V2CMPM.decode", "puresnmp_plugins.security.v2c:SNMPv2cSecurityModel.process_incoming_message",
             "puresnmp.api.pythonic:TrapInfo.origin", "puresnmp.api.pythonic:TrapInfo.values"]
    out = []

    def dgram_args(k, kind=None):
        return [Arg(f"kind{k}", 0 if kind is None else kind, 3 if kind is None else kind), Arg(f"a{k}", 0, 5), Arg(f"b{k}", 0, 3), Arg(f"addr{k}", 0, 1)]

    out.append(Job("sequences-1", make_harness(1), [Arg("n", 1, 1)] + dgram_args(0), timeout=400, mode="E/concolic-window", functions=funcs, sample_every=3))
    for first in range(4):
        out.append(Job(f"sequences-2-first-kind{first}", make_harness(2), [Arg("n", 2, 2)] + dgram_args(0, first) + dgram_args(1), timeout=600,
                       mode="E/concolic-window", functions=funcs, sample_every=17))
    # three datagrams: the middle one is the disturbance, first and last are valid notifications
    for mid in range(4):
        a = [Arg("n", 3, 3)] + dgram_args(0, 0) + dgram_args(1, mid) + dgram_args(2, 0)
        if not quick:
            a[2], a[3] = Arg("a0", 0, 2), Arg("b0", 0, 1)     # (thorough: first notification with 0..2 payload bindings, 2 rotations)
            a[10], a[11] = Arg("a2", 0, 3), Arg("b2", 0, 1)
        if quick:
            a[2], a[3], a[4] = Arg("a0", 1, 2), Arg("b0", 0, 0), Arg("addr0", 0, 0)
            a[10], a[11] = Arg("a2", 0, 1), Arg("b2", 1, 2)
            if mid == 0:
                a[6], a[7] = Arg("a1", 0, 3), Arg("b1", 3, 3)
        out.append(Job(f"sequences-3-middle-kind{mid}", make_harness(3), a, timeout=600 if quick else 1800, mode="E/concolic-window",
                       functions=funcs, sample_every=29))
    return out
