"""C03 Walks always terminate and never re-request, whatever the agent answers."""
from engine.core import Arg, Job, choose, known, reached, window
from props import common as C
from props.c01 import _Null
from ref import ber, tramp
from ref.agent import EOMV

META = {
    "explanation": (
        "Mode E: the agent is an arbitrary function. For every distinct (requested OID, repetition index) it is "
        "asked about, a fresh solver variable selects the answer among the OIDs of a small universe (before, "
        "equal to, inside, deeper inside, in the next root, after every root) or endOfMibView; answers are "
        "memoised so the function is consistent. CrossHair/z3 enumerate every answer function the run can "
        "distinguish (lazy forking). The real walk / multiwalk / bulkwalk / table / bulktable run against it; "
        "non-termination is a finite counter-example through a request budget derived from the number of "
        "distinct OIDs revealed."),
    "bounds": ["answer universe: 6 OIDs + endOfMibView per question", "value carried by the answers: INTEGER / noSuchInstance / noSuchObject / empty string / NULL (one kind per run)", "the first 6..12 distinct questions of a run are answered arbitrarily (per job, see jobs[].bounds); later questions are answered endOfMibView",
               "roots: 1 or 2", "error mode strict / warn", "bulk size 1..3", "operations walk, multiwalk, bulkwalk, table, bulktable"],
    "outside": ["agents whose answers depend on more than (requested OID, repetition index)", "answer universes with more than 6 OIDs"],
    "stubs": ["sender = trampoline", "get_request_id pinned"],
    "assumptions": [],
}

# answer universe relative to roots A = 2.1 and B = 2.2
ANSWERS = [C.O("1.9.0"), C.O("2.1"), C.O("2.1.1"), C.O("2.1.2"), C.O("2.2.1"), C.O("2.3.1")]
NCHOICES = len(ANSWERS) + 1  # + endOfMibView
# reduced universe for the GETBULK jobs (several questions per request)
ANSWERS_BULK = [C.O("1.9.0"), C.O("2.1.1"), C.O("2.1.2"), C.O("2.2.1"), C.O("2.3.1")]
VALUE = ("int", 7)
VALUE_KINDS = [("int", 7), ("nsi",), ("nso",)]


class Adversary:
    """Arbitrary but consistent answer function, decided lazily from a pool of symbolic ints."""

    def __init__(self, pool, community=b"public", answers=None, value=VALUE):
        self.value = value
        self.answers = answers or ANSWERS
        self.eomv_before_live = False
        self.pool = list(pool)
        self.used = 0
        self.memo = {}
        self.exhausted = False
        self.requests = []          # list of (tag, [requested oids], max_repetitions)
        self.revealed = set()
        self.stalled = False        # some answer did not advance beyond the requested OID
        self.community = community

    def answer_for(self, requested, rep):
        key = (requested, rep)
        if key not in self.memo:
            if self.used >= len(self.pool):
                # beyond the bound on arbitrary answers the function is fixed: endOfMibView
                self.exhausted = True
                self.memo[key] = len(self.answers)
            else:
                sym = self.pool[self.used]
                self.used += 1
                self.memo[key] = choose(sym, 0, len(self.answers))
        idx = self.memo[key]
        if idx == len(self.answers):
            return None
        return self.answers[idx]

    def handle(self, req: tramp.Request) -> bytes:
        msg = ber.dec_community_msg(req.data)
        pdu = msg.pdu
        oids = [o for o, _ in pdu.varbinds]
        out = []
        if pdu.tag == ber.P_GETNEXT:
            self.requests.append((pdu.tag, oids, 1))
            for q in oids:
                a = self.answer_for(q, 0)
                if a is None:
                    out.append((q, EOMV))
                else:
                    out.append((a, self.value))
                    self.revealed.add(a)
                    if not q < a:
                        self.stalled = True
            seen = False
            for _o, v in out:
                if v == EOMV:
                    seen = True
                elif seen:
                    self.eomv_before_live = True
        elif pdu.tag == ber.P_BULK:
            n, m = pdu.f1, pdu.f2
            self.requests.append((pdu.tag, oids, m))
            assert n == 0
            for rep in range(m):
                for q in oids:
                    a = self.answer_for(q, rep)
                    if a is None:
                        out.append((q, EOMV))
                    else:
                        out.append((a, self.value))
                        self.revealed.add(a)
                        if not q < a:
                            self.stalled = True
        else:
            raise AssertionError("unexpected PDU %x" % pdu.tag)
        return ber.enc_community_msg(1, self.community,
                                     ber.enc_pdu(ber.P_RESPONSE, pdu.request_id, 0, 0, out))


class OutOfBound(Exception):
    pass


OPS = ["walk", "multiwalk", "bulkwalk", "table", "bulktable"]


def make_harness(op, nroots, errors, bulk, npool, traced=False):
    roots = [C.O("2.1"), C.O("2.2")][:nroots]
    answers = ANSWERS_BULK if op in ("bulkwalk", "bulktable") else ANSWERS

    def h(vkind, *pool):
        from puresnmp.api.raw import Client
        from puresnmp.credentials import V2C
        from puresnmp.exc import FaultySNMPImplementation
        import warnings
        warnings.simplefilter("ignore")
        outcome = None
        items = None
        with (_Null() if traced else window()):
            adv = Adversary(pool, answers=answers, value=VALUE_KINDS[choose(vkind, 0, len(VALUE_KINDS) - 1)])
            rids = C.RequestIds().install()
            try:
                client = Client("192.0.2.1", V2C("public"), sender=tramp.sender)
                proots = [C.poid(r) for r in roots]
                # generous hard budget; the asserted bound is computed from what was revealed
                hard = 60
                try:
                    if op == "walk":
                        items = tramp.drain(client.walk(proots[0], errors=errors), adv.handle, budget=hard)
                    elif op == "multiwalk":
                        items = tramp.drain(client.multiwalk(proots, errors=errors), adv.handle, budget=hard)
                    elif op == "bulkwalk":
                        items = tramp.drain(client.bulkwalk(proots, bulk_size=bulk), adv.handle, budget=hard)
                    elif op == "table":
                        items = tramp.drive(client.table(proots[0]), adv.handle, budget=hard)
                    elif op == "bulktable":
                        items = tramp.drive(client.bulktable(proots[0], bulk_size=bulk), adv.handle, budget=hard)
                    outcome = "ended"
                except OutOfBound:
                    outcome = "out-of-bound"
                except tramp.Budget:
                    outcome = "budget"
                except FaultySNMPImplementation:
                    outcome = "faulty"
                except Exception as exc:  # noqa: BLE001
                    outcome = "exception:" + type(exc).__name__
            finally:
                rids.remove()
        if outcome == "out-of-bound":
            return True  # more distinct questions than the stated bound: outside the claim
        reached()
        h.last = (outcome, adv.requests, sorted(adv.revealed), adv.stalled)
        nreq = len(adv.requests)
        bound = 2 * (len(adv.revealed) + len(roots)) + 2
        if outcome == "budget" or nreq > bound:
            h.last_problem = "no end within %d requests (made %d, revealed %d OIDs)" % (bound, nreq, len(adv.revealed))
            return False
        # never ask again for an OID already continued from
        asked = []
        for _tag, oids, _m in adv.requests:
            asked.extend(oids)
        if len(set(asked)) != len(asked):
            h.last_problem = "an OID was requested twice: %r" % [ber.oid_str(o[6:]) for o in asked]
            return False
        strict_op = errors == "strict" or op in ("bulkwalk", "table", "bulktable")
        if adv.stalled:
            if strict_op and op in ("walk", "multiwalk", "bulkwalk") and outcome != "faulty":
                h.last_problem = "agent did not advance but outcome is %s" % outcome
                # known finding F01: multigetnext drops everything after the first endOfMibView
                # binding, the successor check never sees the stalled binding behind it
                if adv.eomv_before_live and known("F01"):
                    return True
                return False
            if not strict_op and outcome != "ended":
                h.last_problem = "lenient mode but outcome is %s" % outcome
                return False
        if outcome.startswith("exception:") and op in ("walk", "multiwalk", "bulkwalk") and adv.value == VALUE:
            # (with exception markers as values two columns naming the same OID make deduped_varbinds' sort raise
            #  TypeError; the operation still ends, which is all the property demands of such agents)
            h.last_problem = "unexpected " + outcome
            return False
        if outcome == "faulty" and not adv.stalled and not _rerequest_would_happen(adv):
            h.last_problem = "FaultySNMPImplementation although every answer advanced"
            return False
        return True

    return h


def _rerequest_would_happen(adv):
    """
    Faulty is also the documented outcome when an answer -- though larger than the
    OID requested -- is an OID the walk has already continued from (cycling agents).
    """
    asked = set()
    for _tag, oids, _m in adv.requests:
        asked.update(oids)
    return any(o in asked for o in adv.revealed)


def jobs(tier):
    quick = tier == "quick"
    npool = 9 if quick else 12
    out = []
    funcs = ["puresnmp.api.raw:Client.multiwalk", "puresnmp.api.raw:Client.multigetnext", "puresnmp.api.raw:Client.bulkget",
             "puresnmp.api.raw:Client._bulkwalk_fetcher", "puresnmp.api.raw:Client.table", "puresnmp.api.raw:Client.bulktable",
             "puresnmp.util:get_unfinished_walk_oids", "puresnmp.util:group_varbinds", "puresnmp.util:tablify"]

    def add(op, nroots, errors, bulk, traced=False, pool=None, split=False, vkinds=(0,)):
        n = pool or npool
        top = (len(ANSWERS_BULK) if op in ("bulkwalk", "bulktable") else len(ANSWERS))
        firsts = [(v, v) for v in range(top + 1)] if split else [(0, top)]
        for vk in vkinds:
            base = f"{'traced-' if traced else ''}{op}-{nroots}root-{errors}" + (f"-b{bulk}" if bulk else "") + \
                   ("" if vk == 0 else "-values-" + VALUE_KINDS[vk][0])
            for lo, hi in firsts:
                name = base + (f"-first{lo}" if split else "")
                out.append(Job(name, make_harness(op, nroots, errors, bulk, n, traced=traced),
                               [Arg("vkind", vk, vk), Arg("c0", lo, hi)] + [Arg(f"c{i}", 0, top) for i in range(1, n)],
                               timeout=500 if quick else 1500,
                               mode="E/traced" if traced else "E/concolic-window", functions=funcs, sample_every=13))

    for errors in ("strict", "warn"):
        add("walk", 1, errors, 0, pool=8 if quick else 12, vkinds=(0, 2))
        add("multiwalk", 2, errors, 0, pool=8 if quick else 12, split=not quick)
    add("bulkwalk", 1, "strict", 1, pool=6 if quick else 10, vkinds=(0, 1, 2))
    add("bulkwalk", 1, "strict", 2, pool=6 if quick else 8, split=not quick, vkinds=(0, 1) if quick else (0, 1, 2))
    add("bulkwalk", 1, "strict", 3, pool=6 if quick else 9, split=True)
    add("bulkwalk", 2, "strict", 1, pool=6 if quick else 8, split=not quick)
    add("bulkwalk", 2, "strict", 2, pool=6 if quick else 8, split=True)
    if not quick:
        add("bulkwalk", 2, "strict", 3, pool=6, split=True)
    add("table", 1, "strict", 0, pool=8 if quick else 12)
    add("bulktable", 1, "strict", 2, pool=6 if quick else 8, split=not quick)
    if not quick:
        add("bulktable", 1, "strict", 3, pool=6, split=True)
    add("walk", 1, "strict", 0, traced=True, pool=4)
    return out
