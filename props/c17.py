"""C17 SNMP application types keep their numeric and conversion semantics."""
from engine.core import Arg, Job, reached
from ref import ber

META = {
    "explanation": (
        "Mode T: CrossHair (z3) executes the real constructors / encoders / decoders of "
        "puresnmp.types (Counter, Counter64, Gauge, TimeTicks, IpAddress, Opaque) and x690 with symbolic "
        "integers and content octets and proves the stated post-conditions over every path. Mode S: the "
        "Python AST of TimeTicks.__init__ and TimeTicks.pythonize is translated on every run to an SMT "
        "formula (LRA+LIA with the IEEE-754 error model over all 2^32 ticks, and exactly to QF_FP on a "
        "dense prefix) and z3 is asked for a tick that is gained or lost; candidates are replayed natively."),
    "bounds": [
        "Counter/Counter64 wrap+clamp: all integers (|v| <= 2^256 stated, z3 Int is unbounded)",
        "unsigned decode: 1..5 (Counter64: 1..9) fully symbolic content octets",
        "encode/decode round trip: every value of each type's range (Counter32/Gauge32/TimeTicks 0..2^32-1, Counter64 0..2^64-1, IpAddress all 2^32)",
        "TimeTicks <-> timedelta: all 2^32 ticks (error-model encoding), exact IEEE encoding for t < 2^12 (quick) / 2^16 (thorough)",
    ],
    "outside": ["Opaque/OctetString contents longer than 6 octets", "timedelta inputs that are not a whole number of ticks (the property speaks about tick values)"],
    "stubs": [],
    "assumptions": ["CrossHair's model of CPython int/bytes operations plus the bit-operation plug-in (identity proved by z3 per run)",
                    "IEEE-754 binary64 arithmetic with round-to-nearest-even; CPython's timedelta(seconds=float) algorithm as documented in Lib/datetime.py"],
}

BIG = 2 ** 256


def _types():
    from puresnmp import types as t
    return t


# ---------------------------------------------------------------- counters
def h_counter32(v):
    t = _types()
    reached()
    got = t.Counter(v).value
    want = 0 if v <= 0 else v % 2 ** 32
    return got == want and 0 <= got < 2 ** 32


def h_counter64(v):
    t = _types()
    reached()
    got = t.Counter64(v).value
    want = 0 if v <= 0 else v % 2 ** 64
    return got == want and 0 <= got < 2 ** 64


# --------------------------------------------------------- unsigned decode
_UNSIGNED = {"c32": ("Counter", 0x41), "g32": ("Gauge", 0x42), "tt": ("TimeTicks", 0x43), "c64": ("Counter64", 0x46)}


def make_unsigned_decode(kind, n):
    clsname, tag = _UNSIGNED[kind]

    def h(*octets):
        import x690
        t = _types()
        data = bytes([tag, n] + list(octets))
        obj, nxt = x690.decode(data)
        reached()
        if type(obj) is not getattr(t, clsname) or nxt != len(data):
            return False
        want = 0
        for o in octets:
            want = want * 256 + o
        ref = ber.dec_value(tag, data[2:])
        return obj.value == want and obj.value >= 0 and ref == (kind, want)

    return h


# ----------------------------------------------------- encode/decode round trip
def make_roundtrip(kind):
    clsname, tag = _UNSIGNED[kind]

    def h(v):
        import x690
        t = _types()
        cls = getattr(t, clsname)
        raw = bytes(cls(v))
        obj, nxt = x690.decode(raw)
        reached()
        if type(obj) is not cls or nxt != len(raw):
            return False
        # independent reading of what was put on the wire
        tg, cs, ce = ber.read_tlv(raw, 0)
        ref = ber.dec_value(tg, raw[cs:ce])
        # RFC 3417: unsigned types are encoded as non-negative INTEGERs, minimal length
        minimal = ce - cs == 1 or not (raw[cs] == 0 and raw[cs + 1] < 128)
        return obj.value == v and ref == (kind, v) and tg == tag and minimal

    return h


def h_ip_roundtrip(a, b, c, d):
    import x690
    from ipaddress import IPv4Address
    t = _types()
    num = ((a * 256 + b) * 256 + c) * 256 + d
    addr = IPv4Address(num)
    raw = bytes(t.IpAddress(addr))
    reached()
    if raw[0] != 0x40 or raw[1] != 4 or len(raw) != 6:
        return False
    if not (raw[2] == a and raw[3] == b and raw[4] == c and raw[5] == d):
        return False
    obj, nxt = x690.decode(raw)
    val = obj.value
    return type(obj) is t.IpAddress and type(val) is IPv4Address and int(val) == num and obj.pythonize() == val


def h_ip_decode(a, b, c, d):
    import x690
    from ipaddress import IPv4Address
    t = _types()
    obj, nxt = x690.decode(bytes([0x40, 4, a, b, c, d]))
    reached()
    val = obj.value
    num = ((a * 256 + b) * 256 + c) * 256 + d
    return type(obj) is t.IpAddress and type(val) is IPv4Address and int(val) == num and nxt == 6


def make_opaque(n):
    def h(*octets):
        import x690
        t = _types()
        payload = bytes(list(octets[:n]))
        raw = bytes(t.Opaque(payload))
        obj, nxt = x690.decode(raw)
        reached()
        tg, cs, ce = ber.read_tlv(raw, 0)
        return (type(obj) is t.Opaque and obj.value == payload and tg == 0x44
                and bytes(raw[cs:ce]) == payload and nxt == len(raw))
    return h


def h_ticks_int_roundtrip(tk):
    """TimeTicks built from an int keeps the int (integer form of the type)."""
    import x690
    t = _types()
    obj, _ = x690.decode(bytes(t.TimeTicks(tk)))
    reached()
    return type(obj) is t.TimeTicks and obj.value == tk


def jobs(tier):
    from props import c17_smt
    out = [
        Job("counter32-wrap-all-integers", h_counter32, [Arg("v", -BIG, BIG)], timeout=60,
            functions=["puresnmp.types:Counter.__init__"]),
        Job("counter64-wrap-all-integers", h_counter64, [Arg("v", -BIG, BIG)], timeout=60,
            functions=["puresnmp.types:Counter64.__init__"]),
        Job("ip-roundtrip-all-addresses", h_ip_roundtrip, [Arg(x, 0, 255) for x in "abcd"], timeout=120,
            functions=["puresnmp.types:IpAddress.encode_raw", "puresnmp.types:IpAddress.decode_raw"]),
        Job("ip-decode-all-addresses", h_ip_decode, [Arg(x, 0, 255) for x in "abcd"], timeout=120,
            functions=["puresnmp.types:IpAddress.decode_raw"]),
        Job("timeticks-int-roundtrip", h_ticks_int_roundtrip, [Arg("tk", 0, 2 ** 32 - 1)], timeout=120),
    ]
    for kind in _UNSIGNED:
        top = 2 ** 64 - 1 if kind == "c64" else 2 ** 32 - 1
        out.append(Job(f"roundtrip-{kind}", make_roundtrip(kind), [Arg("v", 0, top)], timeout=150,
                       functions=["x690.types:Integer.encode_raw", "x690.types:Integer.decode_raw"]))
        sizes = range(1, 10) if kind == "c64" else range(1, 6)
        if tier == "quick":
            sizes = [s for s in sizes if s in (1, 4, 5, 8, 9)]
        for n in sizes:
            out.append(Job(f"unsigned-decode-{kind}-{n}", make_unsigned_decode(kind, n),
                           [Arg(f"o{i}", 0, 255) for i in range(n)], timeout=120,
                           functions=["x690.types:decode", "x690.types:Integer.decode_raw"]))
    for n in ((0, 3) if tier == "quick" else (0, 1, 3, 6)):
        out.append(Job(f"opaque-roundtrip-{n}", make_opaque(n), [Arg(f"o{i}", 0, 255) for i in range(n)] or
                       [Arg("unused", 0, 0)], timeout=120))
    out.extend(c17_smt.jobs(tier))
    return out
