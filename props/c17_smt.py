"""
C17, mode S: TimeTicks <-> timedelta over all 2^32 ticks, decided by z3 (and
cross-checked by cvc5) on formulas generated from the AST of the functions in
/repo/src/puresnmp/types.py at run time (engine/pyast_smt.py).
"""
import os
import subprocess
import time
from datetime import timedelta

import z3  # type: ignore

from engine import pyast_smt as P
from engine.core import Arg, Job, VERIF

TICK_MAX = 2 ** 32 - 1


def _ticks_var(ctx, lo, hi):
    if ctx.mode == "exact":
        t = z3.BitVec("t", 64)
        ctx.constraints.append(z3.And(z3.UGE(t, z3.BitVecVal(lo, 64)), z3.ULE(t, z3.BitVecVal(hi, 64))))
    else:
        t = z3.Int("t")
        ctx.constraints.append(z3.And(t >= lo, t <= hi))
    return P.IntV(t, lo, hi)


def encode_pythonize(mode, lo, hi):
    """Returns (ctx, t, negated-property) for: pythonize() == timedelta(microseconds=t*10^4)."""
    from puresnmp.types import TimeTicks
    ctx = P.Ctx(mode)
    t = _ticks_var(ctx, lo, hi)
    node = P.function_ast(TimeTicks.pythonize)
    interp = P.Interp(ctx, {"self": {"value": t}})
    interp.run(node.body)
    res = interp.returned
    if not isinstance(res, P.TdV):
        raise P.NotEncodable("pythonize does not return a timedelta for an int value")
    want = P.i_binop(ctx, "*", t, P.iconst(ctx, 10 ** 4))
    return ctx, t, res.us.e != want.e


def encode_init(mode, lo, hi):
    """Returns (ctx, t, negated-property) for: TimeTicks(timedelta(us=t*10^4)).value == t."""
    from puresnmp.types import TimeTicks
    ctx = P.Ctx(mode)
    t = _ticks_var(ctx, lo, hi)
    node = P.function_ast(TimeTicks.__init__)
    argname = node.args.args[1].arg
    td = P.TdV(P.i_binop(ctx, "*", t, P.iconst(ctx, 10 ** 4)))
    interp = P.Interp(ctx, {"self": {}, argname: td})
    interp.run(node.body)
    res = interp.init_value
    if not isinstance(res, P.IntV):
        raise P.NotEncodable("__init__ does not hand an int to Integer.__init__ for a timedelta")
    return ctx, t, res.e != t.e


def encode_roundtrip(mode, lo, hi):
    """TimeTicks(TimeTicks(t).pythonize()).value == t, both kernels chained."""
    from puresnmp.types import TimeTicks
    ctx = P.Ctx(mode)
    t = _ticks_var(ctx, lo, hi)
    n1 = P.function_ast(TimeTicks.pythonize)
    i1 = P.Interp(ctx, {"self": {"value": t}})
    i1.run(n1.body)
    if not isinstance(i1.returned, P.TdV):
        raise P.NotEncodable("pythonize result")
    n2 = P.function_ast(TimeTicks.__init__)
    i2 = P.Interp(ctx, {"self": {}, n2.args.args[1].arg: i1.returned})
    i2.run(n2.body)
    if not isinstance(i2.init_value, P.IntV):
        raise P.NotEncodable("__init__ result")
    return ctx, t, i2.init_value.e != t.e


ENCODERS = {"pythonize": encode_pythonize, "init": encode_init, "roundtrip": encode_roundtrip}


def native_pythonize(t):
    from puresnmp.types import TimeTicks
    return TimeTicks(t).pythonize() == timedelta(microseconds=t * 10 ** 4)


def native_init(t):
    from puresnmp.types import TimeTicks
    return TimeTicks(timedelta(microseconds=t * 10 ** 4)).value == t


def native_roundtrip(t):
    from puresnmp.types import TimeTicks
    return TimeTicks(TimeTicks(t).pythonize()).value == t


NATIVE = {"pythonize": native_pythonize, "init": native_init, "roundtrip": native_roundtrip}


def _cvc5_check(smt2: str, seconds: int) -> str:
    path = os.path.join(VERIF, ".work", "q-%d-%d.smt2" % (os.getpid(), int(time.time() * 1e6) % 10 ** 9))
    os.makedirs(os.path.dirname(path), exist_ok=True)
    with open(path, "w") as fh:
        fh.write(smt2)
    try:
        proc = subprocess.run(["cvc5", "--tlimit=%d" % (seconds * 1000), path], capture_output=True, text=True,
                              timeout=seconds + 20)
        out = (proc.stdout + proc.stderr).strip()
        if "(error" in out:
            return "error: " + out[:200]
        for word in ("unsat", "sat", "unknown"):
            if out.startswith(word):
                return word
        return "unknown"
    except (subprocess.TimeoutExpired, FileNotFoundError):
        return "unknown"
    finally:
        try:
            os.unlink(path)
        except OSError:
            pass


def validate_translation(which, mode, points):
    """
    Serval-style validation of the translator: with t pinned to a concrete
    tick the formula 'encoded result == native result' must be satisfiable
    (model mode) / the encoded result must equal the native one (exact mode).
    """
    from puresnmp.types import TimeTicks
    problems = []
    for pt in points:
        ctx, t, _neg = ENCODERS[which](mode, pt, pt)
        s = z3.Solver()
        s.set("timeout", 20000)
        s.add(*ctx.constraints)
        # recompute the produced term (re-run encoder parts)
        if which == "pythonize":
            native = TimeTicks(pt).pythonize()
            native_us = (native.days * 86400 + native.seconds) * 10 ** 6 + native.microseconds
            ctx2 = P.Ctx(mode)
            tv = _ticks_var(ctx2, pt, pt)
            it = P.Interp(ctx2, {"self": {"value": tv}})
            it.run(P.function_ast(TimeTicks.pythonize).body)
            term, consts = it.returned.us.e, ctx2.constraints
        else:
            td_native = timedelta(microseconds=pt * 10 ** 4) if which == "init" else TimeTicks(pt).pythonize()
            native_us = TimeTicks(td_native).value
            ctx2 = P.Ctx(mode)
            tv = _ticks_var(ctx2, pt, pt)
            if which == "init":
                td = P.TdV(P.i_binop(ctx2, "*", tv, P.iconst(ctx2, 10 ** 4)))
            else:
                i1 = P.Interp(ctx2, {"self": {"value": tv}})
                i1.run(P.function_ast(TimeTicks.pythonize).body)
                td = i1.returned
            n2 = P.function_ast(TimeTicks.__init__)
            it = P.Interp(ctx2, {"self": {}, n2.args.args[1].arg: td})
            it.run(n2.body)
            term, consts = it.init_value.e, ctx2.constraints
        s2 = z3.Solver()
        s2.set("timeout", 20000)
        s2.add(*consts)
        if mode == "exact":
            s2.add(term != z3.BitVecVal(native_us, 64))
            ok = str(s2.check()) == "unsat"
        else:
            s2.add(term == native_us)
            ok = str(s2.check()) == "sat"
        if not ok:
            problems.append((which, mode, pt, native_us))
    return problems


def make_smt_job(which, mode, lo, hi, budget, use_cvc5=True):
    def run():
        t0 = time.time()
        out = {"mode": "S", "paths": 0, "samples": [], "distinct": []}
        checks = 0
        try:
            pts = sorted({lo, hi, (lo + hi) // 2, min(hi, lo + 29), min(hi, lo + 113), min(hi, lo + 100)})
            problems = validate_translation(which, mode, pts)
            checks += len(pts)
            out["distinct"] = [{"validation_tick": p} for p in pts]
            if problems:
                out.update(verdict="TRANSLATION_MISMATCH", error=repr(problems[:3]))
                return out
            ctx, t, neg = ENCODERS[which](mode, lo, hi)
        except P.NotEncodable as exc:
            out.update(verdict="NOT_ENCODABLE", error=str(exc))
            return out
        solver = z3.Solver()
        solver.set("timeout", int(budget * 1000))
        solver.add(*ctx.constraints)
        solver.add(neg)
        smt2 = solver.to_smt2()
        res = str(solver.check())
        checks += 1
        out["samples"] = [{"obligation": f"{which} [{lo},{hi}] {mode}", "float_ops": ctx.ops,
                           "assertions": len(solver.assertions()), "z3": res}]
        if res == "unsat":
            other = "skipped"
            if use_cvc5:
                other = _cvc5_check(smt2, int(min(budget, 120)))
                checks += 1
                out["samples"][0]["cvc5"] = other
            if other == "sat" or other.startswith("error"):
                out.update(verdict="SOLVER_DISAGREEMENT", error=f"z3 unsat, cvc5 {other}")
            else:
                out["verdict"] = "CONFIRMED"
        elif res == "sat":
            model = solver.model()
            tv = model.eval(t.e, model_completion=True).as_long()
            out.update(verdict="SMT_SAT", candidates=[[tv]])
        else:
            out.update(verdict="SOLVER_UNKNOWN", error=solver.reason_unknown())
        out["solver_checks"] = checks
        out["solver_time_s"] = round(time.time() - t0, 3)
        out["paths"] = checks
        return out

    return run


def jobs(tier):
    out = []
    funcs = ["puresnmp.types:TimeTicks.__init__", "puresnmp.types:TimeTicks.pythonize"]
    for which in ("pythonize", "init", "roundtrip"):
        job = Job(f"ticks-{which}-all-2^32-errormodel", make_smt_job(which, "model", 0, TICK_MAX, 120),
                  [Arg("t", 0, TICK_MAX)], timeout=200, mode="S", kind="smt", functions=funcs,
                  note="LRA+LIA with IEEE error model; unsat = no tick gained or lost over the full range")
        job.replay_fn = NATIVE[which]
        out.append(job)
    top_exp = 12 if tier == "quick" else 16
    lo = 0
    for e in range(7, top_exp + 1):
        hi = 2 ** e - 1
        if e == 7:
            lo = 0
        for which in ("pythonize", "init"):
            job = Job(f"ticks-{which}-exact-[{lo},{hi}]", make_smt_job(which, "exact", lo, hi, 240, use_cvc5=False),
                      [Arg("t", lo, hi)], timeout=300, mode="S", kind="smt", functions=funcs,
                      note="QF_BVFP exact IEEE-754 encoding of the same AST")
            job.replay_fn = NATIVE[which]
            out.append(job)
        lo = hi + 1
    return out
