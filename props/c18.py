"""C18 Temporary reconfiguration applies inside its block and is undone exactly."""
from engine.core import Arg, Job, choose, known, reached, window
from props import common as C
from props.c01 import _Null
from ref import ber, tramp
from ref import usm as rusm
from ref.agent import Agent, Database

META = {
    "explanation": (
        "Mode E: the history -- a sequence of configure / enter-reconfigure / exit (normal or by exception) / "
        "request / unknown-setting steps -- is chosen step by step by solver variables; CrossHair/z3 enumerate "
        "every properly nested history within the bound. A reference stack model says which timeout, retries, "
        "credentials and context are in force; at each request the sender's keyword arguments and the datagram "
        "(version, community or user, context name, read by the independent decoder) must agree with it, after "
        "each exit Client.config must equal the snapshot taken at entry, and a final request checks the restored "
        "behaviour. Traced job (mode T): the timeout / retries values themselves are symbolic integers flowing "
        "through dataclasses.replace, the context manager and the sender call."),
    "bounds": ["histories of up to 5 steps (quick) / 6 steps (thorough) over 10 step kinds, nesting depth <= 4, plus a final request",
               "credentials cycle V2C(public) -> V2C(other) -> V1 -> V3(md5 user) (same-family and cross-family switches)",
               "timeout / retries: distinct concrete values per step (E) and symbolic 1..10^6 (T)"],
    "outside": ["longer histories, deeper nesting", "reconfiguration from several tasks at once"],
    "stubs": ["sender = trampoline recording its keyword arguments", "get_request_id pinned"],
    "assumptions": [],
}

UNIVERSE = [(o, C.value_for(i)) for i, o in enumerate(C.U14)]
ACTIONS = ["request", "configure-timeout", "configure-credentials", "enter-timeout", "enter-credentials",
           "enter-retries+context", "exit-normal", "exit-exception", "unknown-setting", "unknown-setting+credentials"]


def cred_cycle():
    from puresnmp.credentials import V1, V2C
    return [("v2c", b"public", V2C("public")), ("v2c", b"other", V2C("other")), ("v1", b"public", V1("public")),
            ("v3", b"md5user", C.credentials_for("md5"))]


class Responder:
    """Answers v1 / v2c (any community) / v3 requests and remembers what it saw."""

    def __init__(self):
        self.db = Database(UNIVERSE)
        self.engine = rusm.Engine(Agent(self.db), C.ENGINE_ID, [u._replace(cipher=rusm.StreamCipher()) for u in C.USERS.values()],
                                  boots=2, clock=lambda: 500)
        self.seen = []
        self.kwargs = []

    def __call__(self, req: tramp.Request):
        data = req.data
        tag, cs, ce = ber.read_tlv(data, 0)
        kids = ber.read_children(data, cs, ce)
        version = ber.dec_int(data[kids[0][2]:kids[0][3]])
        if version == 3:
            msg = ber.dec_v3_msg(data)
            if msg.usm.engine_id != b"":
                self.seen.append(("v3", msg.usm.user, msg.scoped.ctx_name if msg.scoped else None))
                self.kwargs.append(dict(req.kw))
            return self.engine.handle(data)
        msg = ber.dec_community_msg(data)
        self.seen.append(("v1" if version == 0 else "v2c", msg.community, None))
        self.kwargs.append(dict(req.kw))
        agent = Agent(self.db, version=version, community=msg.community)
        return agent.handle(data)


def make_harness(nsteps, traced=False):
    def h(*steps):
        import warnings
        warnings.simplefilter("ignore")
        from puresnmp.api.raw import Client, Context
        problem = None
        with (_Null() if traced else window()):
            rids = C.RequestIds().install()
            try:
                creds = cred_cycle()
                responder = Responder()
                client = Client("192.0.2.1", creds[0][2], sender=tramp.sender)
                model = {"timeout": client.config.timeout, "retries": client.config.retries, "cred": 0, "ctx": b""}
                stack = []      # (context manager, snapshot of model, snapshot of client.config, mpm)
                cred_next = [0]
                fresh = [10]

                def nxt():
                    fresh[0] += 1
                    return fresh[0]

                def do_request():
                    before = len(responder.seen)
                    try:
                        tramp.drive(client.get(C.poid(C.U14[2])), responder)
                    except Exception as exc:  # noqa: BLE001
                        return "request failed: %s: %s" % (type(exc).__name__, exc)
                    if len(responder.seen) != before + 1:
                        return "request produced %d datagrams" % (len(responder.seen) - before)
                    fam, who, ctx = responder.seen[-1]
                    kw = responder.kwargs[-1]
                    want = creds[model["cred"]]
                    if (fam, who) != (want[0], want[1]):
                        return "request spoke %s/%r, in force is %s/%r" % (fam, who, want[0], want[1])
                    if fam == "v3" and ctx != model["ctx"]:
                        return "context name %r, in force %r" % (ctx, model["ctx"])
                    if (kw.get("timeout"), kw.get("retries")) != (model["timeout"], model["retries"]):
                        return "sender got timeout/retries %r/%r, in force %r/%r" % (kw.get("timeout"), kw.get("retries"),
                                                                                   model["timeout"], model["retries"])
                    return None

                for sym in steps[:nsteps]:
                    act = choose(sym, 0, len(ACTIONS) - 1)
                    name = ACTIONS[act]
                    if name == "request":
                        problem = do_request()
                    elif name == "configure-timeout":
                        v = nxt()
                        client.configure(timeout=v)
                        model["timeout"] = v
                    elif name == "configure-credentials":
                        cred_next[0] = (cred_next[0] + 1) % len(creds)
                        client.configure(credentials=creds[cred_next[0]][2])
                        model["cred"] = cred_next[0]
                    elif name in ("enter-timeout", "enter-credentials", "enter-retries+context"):
                        if len(stack) >= 4:
                            break   # deeper nesting is outside the bound
                        snap = (dict(model), client.config, client.mpm)
                        if name == "enter-timeout":
                            v = nxt()
                            cm = client.reconfigure(timeout=v)
                            new = {"timeout": v}
                        elif name == "enter-credentials":
                            cred_next[0] = (cred_next[0] + 1) % len(creds)
                            cm = client.reconfigure(credentials=creds[cred_next[0]][2])
                            new = {"cred": cred_next[0]}
                        else:
                            v = nxt()
                            ctxname = b"ctx%d" % v
                            cm = client.reconfigure(retries=v, context=Context(b"", ctxname))
                            new = {"retries": v, "ctx": ctxname}
                        cm.__enter__()
                        stack.append((cm,) + snap)
                        model.update(new)
                    elif name in ("exit-normal", "exit-exception"):
                        if not stack:
                            break   # not a properly nested history
                        cm, snap_model, snap_config, snap_mpm = stack.pop()
                        if name == "exit-normal":
                            cm.__exit__(None, None, None)
                        else:
                            err = RuntimeError("boom")
                            try:
                                swallowed = cm.__exit__(RuntimeError, err, None)
                            except RuntimeError:
                                swallowed = False
                            if swallowed:
                                problem = "the exception raised inside the block was swallowed"
                        model.clear()
                        model.update(snap_model)
                        if problem is None and not (client.config == snap_config):
                            problem = "after leaving the block the configuration is %r, before entering it was %r" % (client.config, snap_config)
                        if problem is None and client.mpm is not snap_mpm and type(client.mpm) is not type(snap_mpm):
                            problem = "after leaving the block the message-processing model is %r" % (client.mpm,)
                    elif name in ("unknown-setting", "unknown-setting+credentials"):
                        before_cfg, before_mpm = client.config, client.mpm
                        raised = False
                        extra = {}
                        if name.endswith("credentials"):
                            # together with valid credentials of the next family (which must not be applied either)
                            extra = {"credentials": creds[(cred_next[0] + 1) % len(creds)][2]}
                        try:
                            if len(stack) % 2 == 0:
                                client.configure(no_such_setting=1, **extra)
                            else:
                                with client.reconfigure(no_such_setting=1, **extra):
                                    pass
                        except Exception:  # noqa: BLE001
                            raised = True
                        if not raised:
                            problem = "unknown setting accepted"
                        elif not (client.config == before_cfg) or client.mpm is not before_mpm:
                            problem = "a refused setting changed the configuration"
                    if problem:
                        break
                if problem is None:
                    # unwind (normally) and check the behaviour after every level
                    while stack and problem is None:
                        cm, snap_model, snap_config, snap_mpm = stack.pop()
                        cm.__exit__(None, None, None)
                        model.clear()
                        model.update(snap_model)
                        if not (client.config == snap_config):
                            problem = "after leaving the block the configuration is %r, before entering it was %r" % (client.config, snap_config)
                        else:
                            problem = do_request()
                    if problem is None:
                        problem = do_request()
            finally:
                rids.remove()
        reached()
        if problem:
            h.last_problem = problem
            return False
        return True

    return h


def h_traced(t0, t1, t2, r1):
    """Mode T: symbolic timeout / retries through replace(), the context manager and the sender call."""
    import warnings
    warnings.simplefilter("ignore")
    from puresnmp.api.raw import Client
    from puresnmp.credentials import V2C
    rids = C.RequestIds().install()
    try:
        responder = Responder()
        client = Client("192.0.2.1", V2C("public"), sender=tramp.sender)
        seen = []

        def request():
            tramp.drive(client.get(C.poid(C.U14[2])), responder)
            kw = responder.kwargs[-1]
            seen.append((kw["timeout"], kw["retries"]))

        client.configure(timeout=t0)
        request()
        with client.reconfigure(timeout=t1, retries=r1):
            request()
            try:
                with client.reconfigure(timeout=t2):
                    request()
                    raise RuntimeError("boom")
            except RuntimeError:
                pass
            request()
        request()
    finally:
        rids.remove()
    reached()
    d = 10  # default retries
    return seen == [(t0, d), (t1, r1), (t2, r1), (t1, r1), (t0, d)]


def jobs(tier):
    quick = tier == "quick"
    n = 5 if quick else 6
    funcs = ["puresnmp.api.raw:Client.configure", "puresnmp.api.raw:Client.reconfigure", "puresnmp.api.raw:Client._send",
             "puresnmp.plugins.mpm:create", "puresnmp.api.raw:Client.__init__"]
    out = []
    k = len(ACTIONS)
    for first in range(k):
        if ACTIONS[first].startswith("exit"):
            continue   # a history cannot start by leaving a block
        seconds = range(k)
        for second in seconds:
            a = [Arg("s0", first, first)] + [Arg(f"s{i}", 0, k - 1) for i in range(1, n)]
            name = f"histories-{n}steps-first-{ACTIONS[first]}"
            if second is not None:
                a[1] = Arg("s1", second, second)
                name += f"-then-{ACTIONS[second]}"
            out.append(Job(name, make_harness(n), a, timeout=600 if quick else 1800, mode="E/concolic-window", functions=funcs,
                           sample_every=37))
    out.append(Job("traced-symbolic-timeout-retries", h_traced,
                   [Arg("t0", 1, 10 ** 6), Arg("t1", 1, 10 ** 6), Arg("t2", 1, 10 ** 6), Arg("r1", 1, 10 ** 6)], timeout=600, mode="T",
                   functions=funcs))
    return out
