"""C01 Walk exactness: every instance below each root exactly once, nothing else."""
import itertools

from engine.core import Arg, Job, decide, known, reached, window
from props import common as C
from ref import ber
from ref.agent import Database
from ref.tramp import Budget

META = {
    "explanation": (
        "Mode E: the agent database is symbolic -- one solver variable per candidate instance of a 14-OID "
        "universe (before / equal to / below / adjacent / far after the roots, different depths, sub-identifiers "
        "9 vs 10) -- and a reference RFC 3416 agent consults the variables lazily, so CrossHair/z3 enumerate to "
        "exhaustion exactly the databases the run can distinguish. On every path the real Client.walk / "
        "multiwalk (and PyWrapper on top) run against that agent over the real v2c / v3 message processing; "
        "each unordered root set is walked in every listing order inside the same path. A fully traced twin "
        "(no concolic window) runs at a smaller bound."),
    "bounds": ["universe: 14 OIDs under 1.3.6.1.2.1 (quick: 10-OID sub-universe)",
               "root lists: every ordered list of 1..3 (quick: 1..2) pairwise disjoint roots out of {2.1, 2.2, 4, 2.10, 3, 99}",
               "protocols: v2c on everything; v3 noAuthNoPriv, authNoPriv (MD5, SHA-1), authPriv (harness cipher) on selected root sets"],
    "outside": ["universes larger than 14 OIDs, more than 3 roots", "overlapping roots (excluded by the property)",
                "non-conformant agents (C03)"],
    "stubs": ["sender = trampoline (no sockets)", "get_request_id pinned to a counter", "privacy plug-in = harness stream cipher"],
    "assumptions": ["reference agent implements RFC 3416 4.2.2 GETNEXT", "CrossHair explores the decision tree of the symbolic presence bits exhaustively (reported as Confirmed over all paths)"],
}

UNIVERSE = [(o, C.value_for(i)) for i, o in enumerate(C.U14)]
SUB10 = [UNIVERSE[i] for i in (0, 1, 2, 3, 5, 6, 8, 9, 11, 13)]


SKIP = "skip"


def run_walk(world, perm, db, via_wrapper, expected, bulk=0, budget=80):
    """
    Walk the roots in listing order *perm*.  Returns (problem or None, expected).
    The expectation is derived from the same database *after* the first run so
    that membership is decided lazily by what the run itself asks.
    """
    before = world.n_requests
    problem = None
    got = []
    try:
        if via_wrapper:
            from puresnmp.api.pythonic import PyWrapper
            wrapper = PyWrapper(world.client)
            if bulk:
                items = world.collect(wrapper.bulkwalk([ber.oid_str(r) for r in perm], bulk_size=bulk), budget=budget)
            elif len(perm) == 1:
                items = world.collect(wrapper.walk(ber.oid_str(perm[0])), budget=budget)
            else:
                items = world.collect(wrapper.multiwalk([ber.oid_str(r) for r in perm]), budget=budget)
            got = [(ber.oid(vb.oid) if isinstance(vb.oid, str) else ("bad", repr(vb.oid)), vb.value) for vb in items]
        else:
            if bulk:
                items = world.collect(world.client.bulkwalk([C.poid(r) for r in perm], bulk_size=bulk), budget=budget)
            elif len(perm) == 1:
                items = world.collect(world.client.walk(C.poid(perm[0])), budget=budget)
            else:
                items = world.collect(world.client.multiwalk([C.poid(r) for r in perm]), budget=budget)
            got = [C.vb_to_ref(vb) for vb in items]
    except Budget:
        problem = "walk did not end within %d requests" % budget
    except Exception as exc:  # noqa: BLE001
        fid = world.known_exception(exc)
        if fid and known(fid):
            return None, expected if expected is not None else SKIP
        problem = "exception %s: %s" % (type(exc).__name__, exc)
    used = world.n_requests - before
    if expected is None:
        # only the membership of instances below a root is consulted (lazy forking)
        expected = [(o, db.overrides.get(o, v)) for i, (o, v) in enumerate(db.universe)
                    if any(C.below(o, r) for r in perm) and db.present(i)]
    if problem:
        return problem, expected
    want = [(o, C.from_ref(v).pythonize()) for o, v in expected] if via_wrapper else list(expected)
    if sorted(got, key=lambda kv: kv[0]) != sorted(want, key=lambda kv: kv[0]):
        return ("order %s: result %r != expected %r" % (
            [ber.oid_str(r[6:]) for r in perm], [ber.oid_str(o[6:]) for o, _ in got],
            [ber.oid_str(o[6:]) for o, _ in want]), expected)
    if len(perm) == 1 and not bulk and [o for o, _ in got] != sorted(o for o, _ in got):
        return "single-root walk not ascending", expected
    if used > len(expected) + len(perm) + 1:
        return "too many requests: %d for %d instances" % (used, len(expected)), expected
    return None, expected


def make_harness(kind, root_names, universe, traced=False, via_wrapper=False):
    roots_all = [C.ROOTS[n] for n in root_names]

    def h(*bits):
        memo = {}

        def present(i):
            if i not in memo:
                memo[i] = decide(bits[i])
            return memo[i]

        db = Database(universe, present)
        problem = None
        with (_Null() if traced else window()):
            world = C.World(kind, db)
            try:
                expected = None
                for perm in itertools.permutations(roots_all):
                    world.agent.flags.clear()
                    world.flags.clear()
                    first_request = world.n_requests + 1
                    problem, expected = run_walk(world, list(perm), db, via_wrapper, expected)
                    if expected is SKIP:
                        expected = None
                    if problem:
                        h.last_problem = problem
                        # run-signature of known finding F01: the FIRST request of this very walk (the one
                        # carrying the roots in listing order) was answered with an endOfMibView binding
                        # followed by a live binding.  (Later requests go out in ascending root order, where
                        # a conformant agent cannot produce that shape.)
                        if ("getnext:eomv-before-live", first_request) in world.agent.flags and known("F01"):
                            problem = None
                            continue
                        break
            finally:
                world.close()
        reached()
        return problem is None

    return h


class _Null:
    def __enter__(self):
        return self

    def __exit__(self, *exc):
        return False


def jobs(tier):
    out = []
    names = "ABCDEZ"
    universe = SUB10 if tier == "quick" else UNIVERSE
    max_roots = 2 if tier == "quick" else 3
    funcs = ["puresnmp.api.raw:Client.multiwalk", "puresnmp.api.raw:Client.multigetnext", "puresnmp.api.raw:Client.walk",
             "puresnmp.api.raw:deduped_varbinds", "puresnmp.util:group_varbinds", "puresnmp.util:get_unfinished_walk_oids"]
    for n in range(1, max_roots + 1):
        for combo in itertools.combinations(names, n):
            out.append(Job("walk-v2c-" + "".join(combo), make_harness("v2c", combo, universe),
                           [Arg(f"p{i}", 0, 1) for i in range(len(universe))], timeout=240 if tier == "quick" else 900,
                           mode="E/concolic-window", functions=funcs, sample_every=7))
    # v3 at every security level on selected root sets
    v3sets = [("A",), ("A", "B")] if tier == "quick" else [("A",), ("E",), ("A", "B"), ("C", "D"), ("B", "Z")]
    for kind in ("noauth", "md5", "sha1", "md5priv", "sha1priv"):
        for combo in v3sets:
            if tier == "quick" and kind in ("sha1", "md5priv") and len(combo) > 1:
                continue
            out.append(Job(f"walk-{kind}-" + "".join(combo), make_harness(kind, combo, SUB10),
                           [Arg(f"p{i}", 0, 1) for i in range(len(SUB10))], timeout=300 if tier == "quick" else 900,
                           mode="E/concolic-window", functions=funcs, sample_every=7))
    # pythonic wrapper on top
    for combo in ([("A",), ("B", "C")] if tier == "quick" else [("A",), ("B", "C"), ("A", "D"), ("E", "C")]):
        out.append(Job("pywalk-v2c-" + "".join(combo), make_harness("v2c", combo, SUB10, via_wrapper=True),
                       [Arg(f"p{i}", 0, 1) for i in range(len(SUB10))], timeout=300, mode="E/concolic-window",
                       functions=funcs + ["puresnmp.api.pythonic:PyWrapper.walk", "puresnmp.api.pythonic:PyWrapper.multiwalk"],
                       sample_every=7))
    # fully traced twins at a small bound (the real functions run under the symbolic tracer)
    small = [UNIVERSE[i] for i in (2, 5, 6, 8)]   # 2.1.1, 2.1.10, 2.2.1, 2.3.1
    for combo in [("A",), ("A", "B")] + ([] if tier == "quick" else [("B", "A")]):
        out.append(Job("traced-twin-v2c-" + "".join(combo), make_harness("v2c", combo, small, traced=True),
                       [Arg(f"p{i}", 0, 1) for i in range(len(small))], timeout=300, mode="E/traced", functions=funcs))
    return out
