"""C05 Every emitted datagram is the intended request under an independent decoder."""
from engine.core import Arg, Job, choose, known, reached, window
from props import common as C
from props.c01 import _Null
from ref import ber, tramp
from ref.agent import Database
from ref import usm as rusm

META = {
    "explanation": (
        "Mode T: the request-id, non-repeaters / max-repetitions, SET values (integers and content octets) and "
        "OID sub-identifiers are symbolic and flow through the real encoders (PDU.encode_raw, "
        "BulkGetRequest.__bytes__, the v1/v2c/v3 message wrappers, x690's Integer/OID/length encoders); the "
        "datagram handed to the sender -- symbolic bytes -- is parsed by the independent RFC 1157/3416/3412 "
        "decoder (ref/ber.py, also executed symbolically) and must read back as exactly the intended request. "
        "z3 decides every branch; CrossHair confirms over all paths. Kernel obligations cover the full numeric "
        "ranges; message obligations cover every operation and protocol version; for v3 with authentication "
        "(HMAC is C code over realised bytes) request-ids come from a boundary set chosen by the solver."),
    "bounds": ["Integer.encode_raw: -2^31 <= v < 2^64, one job per encoded length", "encode_length: 0 <= n < 2^32",
               "OID sub-identifiers 0..2^32-1 (third arc symbolic), first two arcs all 3x40 combinations",
               "messages: request-id symbolic in [-2^31, 2^31) and [2^31, 2^63); non-repeaters/max-repetitions 0..2^31-1 symbolic",
               "SET values: INTEGER Integer32, Counter32/Gauge32/TimeTicks 0..2^32-1, Counter64 0..2^64-1, OCTET STRING / Opaque 0..4 symbolic octets, IpAddress 4 symbolic octets",
               "OID lists from a table (2..128 arcs, sub-identifiers 0,127,128,16383,16384,2^32-1); community / context name / engine id lengths 0,1,32,127,128,255"],
    "outside": ["one-arc OIDs (not representable)", "non-ASCII communities", "request-ids below -2^31 (no SNMP field is that negative)",
                "symbolic request-ids under authentication (digest computed by C code)"],
    "stubs": ["sender = trampoline (datagram captured)", "get_request_id returns the symbolic id", "privacy plug-in = harness stream cipher"],
    "assumptions": ["ref/ber.py is a faithful RFC 3417 section 8 decoder (validated on the repository's captured packets per run)"],
}

OID_TABLE = [
    (1, 3), (1, 3, 6, 1, 2, 1, 1, 1, 0), (2, 39, 0), (0, 0), (1, 3, 127, 128, 16383, 16384, 2 ** 32 - 1),
    tuple([1, 3] + [7] * 126), (1, 3, 6, 1, 4, 1, 2 ** 32 - 1, 0),
]
LENGTHS = [0, 1, 32, 127, 128, 255]
UNIVERSE = [(o, C.value_for(i)) for i, o in enumerate(C.U14)]


# ------------------------------------------------------------------ kernels
def h_integer(v):
    from x690.types import Integer
    raw = Integer(v).encode_raw()
    reached()
    n = len(raw)
    if n == 0:
        return False
    got = ber.dec_int(raw)
    minimal = n == 1 or not ((raw[0] == 0 and raw[1] < 128) or (raw[0] == 255 and raw[1] >= 128))
    return got == v and minimal


def h_length(n):
    from x690.util import encode_length
    raw = encode_length(n)
    reached()
    # independent reading of a definite length (X.690 8.1.3)
    first = raw[0]
    if first < 128:
        return len(raw) == 1 and first == n
    k = first - 128
    if k == 0 or k == 127 or len(raw) != 1 + k:
        return False
    acc = 0
    for i in range(k):
        acc = acc * 256 + raw[1 + i]
    return acc == n


def h_subid(v):
    from x690.types import ObjectIdentifier
    got = ObjectIdentifier.encode_large_value(v)
    reached()
    return list(got) == ber.enc_subid(v)


class _Nodes:
    def __init__(self, nodes):
        self.nodes = nodes


def h_oid_collapse(a, b, c, d):
    """collapse_identifiers + bytes() as in ObjectIdentifier.encode_raw, sub-identifiers symbolic."""
    from x690.types import ObjectIdentifier
    collapsed = ObjectIdentifier.collapse_identifiers(_Nodes((a, b, c, d)))
    raw = bytes(collapsed)
    reached()
    return ber.dec_oid(raw) == (a, b, c, d) and raw == ber.enc_oid((a, b, c, d))


def h_flags(auth, priv, rep):
    from puresnmp.adt import V3Flags
    raw = bytes(V3Flags(bool(auth), bool(priv), bool(rep)))
    reached()
    return len(raw) == 1 and raw[0] == auth + 2 * priv + 4 * rep


# ----------------------------------------------------------------- messages
class Capture(Exception):
    pass


def capture_request(world, coro_factory, rid_sym, which_datagram):
    """Run the operation until datagram number *which_datagram* is handed to the sender."""
    calls = [0]

    def rid():
        calls[0] += 1
        return rid_sym if calls[0] == 1 else 4000 + calls[0]

    import puresnmp.api.raw as raw
    import puresnmp_plugins.security.usm as pusm
    from engine.core import seam
    saved = (seam(raw, "get_request_id"), seam(pusm, "get_request_id"))
    raw.get_request_id = rid
    pusm.get_request_id = rid
    seen = []

    def agent(req):
        seen.append(req)
        if len(seen) == which_datagram:
            raise Capture()
        return world.answer(req)

    try:
        try:
            coro = coro_factory()
            if hasattr(coro, "__anext__"):
                tramp.drive(coro.__anext__(), agent)
            else:
                tramp.drive(coro, agent)
        except Capture:
            pass
    finally:
        raw.get_request_id, pusm.get_request_id = saved
    if len(seen) < which_datagram:
        return None
    return seen[-1]


SETKINDS = ["int", "c32", "g32", "tt", "c64", "str", "opaque", "ip"]


def build_set_value(kind, num, octets):
    from ipaddress import IPv4Address
    from x690.types import Integer, OctetString
    from puresnmp import types as pt
    if kind == "int":
        return Integer(num), ("int", num)
    if kind == "c32":
        return pt.Counter(num), ("c32", num)
    if kind == "g32":
        return pt.Gauge(num), ("g32", num)
    if kind == "tt":
        return pt.TimeTicks(num), ("tt", num)
    if kind == "c64":
        return pt.Counter64(num), ("c64", num)
    data = bytes(list(octets))
    if kind == "str":
        return OctetString(data), ("str", data)
    if kind == "opaque":
        return pt.Opaque(data), ("opaque", data)
    if kind == "ip":
        return pt.IpAddress(IPv4Address(data)), ("ip", data)
    raise ValueError(kind)


def make_message_harness(kind, op, setkind="int", nbytes=0, traced=True, sym_rid=True):
    v3 = kind not in ("v1", "v2c")
    which = 2 if v3 else 1   # v3: discovery comes first

    def h(rid, n, m, num, o0, o1, o2, o3, oid_sel, oid_sel2, len_sel):
        from puresnmp.credentials import V1, V2C
        problem = None
        with (_Null() if traced else window()):
            i1 = choose(oid_sel, 0, len(OID_TABLE) - 1)
            i2 = choose(oid_sel2, 0, len(OID_TABLE) - 1)
            ln = LENGTHS[choose(len_sel, 0, len(LENGTHS) - 1)]
            if not sym_rid:
                rid = RID_SET[choose(rid, 0, len(RID_SET) - 1)]
            if not traced:
                m = choose(m, 0, 3)
                num = choose(num, -5, -5)
            if op == "bulkwalk":
                m = choose(m, 1, 3)   # bulkwalk formats the bulk size into a name ("%d"): keep it concrete
            oids = [OID_TABLE[i1]] + ([OID_TABLE[i2]] if op in ("multiget", "multigetnext", "multiset", "bulkget", "multiwalk") else [])
            name = "c" * ln
            creds = None
            ctx_name = b""
            ctx_engine = b""
            if kind == "v1":
                creds = V1(name)
            elif kind == "v2c":
                creds = V2C(name)
            else:
                ctx_name = name.encode("ascii")
                ctx_engine = (b"\x80\x00\x1f\x88" + b"e" * 251)[:ln] if ln >= 5 else b""
            world = C.World(kind, Database(UNIVERSE), credentials=creds, context_name=ctx_name, engine_id=ctx_engine,
                            pin_ids=False)
            if not v3:
                world.agent.community = name.encode("ascii")
            c = world.client
            poids = [C.poid(o) for o in oids]
            want_vbs = [(o, ("null",)) for o in oids]
            want_tag, want_f1, want_f2 = ber.P_GET, 0, 0
            try:
                if op in ("get", "multiget"):
                    factory = (lambda: c.get(poids[0])) if op == "get" else (lambda: c.multiget(poids))
                elif op in ("getnext", "multigetnext"):
                    want_tag = ber.P_GETNEXT
                    factory = (lambda: c.getnext(poids[0])) if op == "getnext" else (lambda: c.multigetnext(poids))
                elif op in ("walk", "multiwalk"):
                    want_tag = ber.P_GETNEXT
                    factory = (lambda: c.walk(poids[0])) if op == "walk" else (lambda: c.multiwalk(poids))
                elif op == "bulkwalk":
                    want_tag, want_f1, want_f2 = ber.P_BULK, 0, m
                    factory = lambda: c.bulkwalk(poids, bulk_size=m)
                elif op == "bulkget":
                    want_tag, want_f2 = ber.P_BULK, m
                    ns = 1 if len(poids) > 1 else 0
                    want_f1 = ns
                    factory = lambda: c.bulkget(poids[:ns], poids[ns:], max_list_size=m)
                elif op in ("set", "multiset"):
                    want_tag = ber.P_SET
                    val, ref = build_set_value(setkind, num, (o0, o1, o2, o3)[:nbytes])
                    if op == "set":
                        want_vbs = [(oids[0], ref)]
                        factory = lambda: c.set(poids[0], val)
                    else:
                        from x690.types import Null
                        mapping = {poids[0]: val}
                        want_vbs = [(oids[0], ref)]
                        if len(poids) > 1 and poids[1] != poids[0]:
                            mapping[poids[1]] = Null()
                            want_vbs.append((oids[1], ("null",)))
                        factory = lambda: c.multiset(mapping)
                else:
                    raise ValueError(op)
                req = capture_request(world, factory, rid, which)
            finally:
                world.close()
            if req is None:
                problem = "no request datagram was emitted"
            else:
                problem = read_back(req.data, kind, world, name, ctx_name, ctx_engine, want_tag, rid, want_f1, want_f2, want_vbs)
        reached()
        if problem:
            h.last_problem = problem
            return False
        return True

    return h


RID_SET = [-2 ** 31, -129, -1, 0, 127, 128, 2 ** 31 - 1, 2 ** 31, 2 ** 40]


def read_back(data, kind, world, name, ctx_name, ctx_engine, tag, rid, f1, f2, vbs):
    try:
        if kind in ("v1", "v2c"):
            msg = ber.dec_community_msg(data)
            if msg.version != (0 if kind == "v1" else 1):
                return "version field %r" % (msg.version,)
            if msg.community != name.encode("ascii"):
                return "community %r != %r" % (msg.community, name)
            pdu = msg.pdu
        else:
            msg = ber.dec_v3_msg(data)
            user = C.USERS[kind]
            level = 0 if not user.auth_proto else (3 if user.priv_password is not None else 1)
            if msg.version != 3 or msg.sec_model != 3:
                return "version %r / security model %r" % (msg.version, msg.sec_model)
            if msg.msg_id != rid:
                return "msgID %r != request id" % (msg.msg_id,)
            if msg.max_size < 484:
                return "msgMaxSize %r below the RFC 3412 minimum" % (msg.max_size,)
            if msg.flags % 4 != level:
                return "msgFlags %r do not state level %d" % (msg.flags, level)
            if msg.flags // 8 != 0:
                return "reserved msgFlags bits set: %r" % (msg.flags,)
            if ((msg.flags // 4) % 2 == 1) != (tag in (ber.P_GET, ber.P_GETNEXT, ber.P_BULK, ber.P_SET, ber.P_INFORM)):
                return "reportable flag %r on a PDU with tag %#x (RFC 3412 6.4: set exactly for confirmed-class PDUs)" % (msg.flags, tag)
            eng = world.engine
            if (msg.usm.engine_id, msg.usm.user) != (eng.engine_id, user.name):
                return "USM engine id / user %r %r" % (msg.usm.engine_id, msg.usm.user)
            if (msg.usm.boots, msg.usm.time) != (eng.boots, eng.clock()):
                return "USM boots/time %r/%r" % (msg.usm.boots, msg.usm.time)
            if level >= 1 and not rusm.verify(data, msg, user.auth_proto, eng.auth_key(user)):
                return "digest does not verify over the datagram as sent"
            if level == 0 and (msg.usm.auth != b"" or msg.usm.priv != b""):
                return "auth/priv parameters present at noAuthNoPriv"
            scoped = msg.scoped
            if level == 3:
                if msg.encrypted is None:
                    return "scoped PDU in clear under privacy credentials"
                plain = world.cipher.decrypt(eng.priv_key(user), eng.engine_id, msg.usm.boots, msg.usm.time,
                                             msg.usm.priv, msg.encrypted)
                scoped = ber.dec_scoped(plain)
            if scoped is None:
                return "msgData is not a scoped PDU"
            if scoped.ctx_name != ctx_name:
                return "context name %r != %r" % (scoped.ctx_name, ctx_name)
            if scoped.ctx_engine_id != (ctx_engine or eng.engine_id):
                return "context engine id %r" % (scoped.ctx_engine_id,)
            pdu = scoped.pdu
    except ber.BerError as exc:
        return "not well-formed BER: %s" % exc
    if pdu.tag != tag:
        return "PDU tag %#x, intended %#x" % (pdu.tag, tag)
    if pdu.request_id != rid:
        return "request-id %r, intended %r" % (pdu.request_id, rid)
    if pdu.f1 != f1 or pdu.f2 != f2:
        return "fields %r %r, intended %r %r" % (pdu.f1, pdu.f2, f1, f2)
    if pdu.varbinds != list(vbs):
        return "bindings %r, intended %r" % (pdu.varbinds, vbs)
    return None


def jobs(tier):
    quick = tier == "quick"
    out = []
    xf = ["x690.types:Integer.encode_raw", "x690.util:encode_length", "x690.types:ObjectIdentifier.encode_large_value",
          "x690.types:ObjectIdentifier.collapse_identifiers"]
    # Integer.encode_raw, one job per length class
    classes = []
    for k in range(1, 9):
        lo, hi = 2 ** (8 * k - 1) if k > 1 else 0, 2 ** (8 * k + 7) - 1 if k < 8 else 2 ** 64 - 1
        if k == 1:
            lo, hi = 0, 2 ** 15 - 1
        classes.append((f"pos{k}", lo, min(hi, 2 ** 64 - 1)))
    classes += [("neg1", -2 ** 15, -1), ("neg2", -2 ** 23, -2 ** 15 - 1), ("neg3", -2 ** 31, -2 ** 23 - 1)]
    for name, lo, hi in classes:
        if quick and name in ("pos3", "pos5", "pos6", "pos7"):
            continue
        out.append(Job(f"kernel-integer-{name}", h_integer, [Arg("v", lo, hi)], timeout=200, mode="T", functions=xf[:1]))
    out.append(Job("kernel-encode_length", h_length, [Arg("n", 0, 2 ** 32 - 1)], timeout=200, mode="T", functions=xf[1:2]))
    out.append(Job("kernel-oid-subid", h_subid, [Arg("v", 0, 2 ** 32 - 1)], timeout=200, mode="T", functions=xf[2:3]))
    for a in range(3):
        out.append(Job(f"kernel-oid-collapse-arc{a}", h_oid_collapse,
                       [Arg("a", a, a), Arg("b", 0, 39), Arg("c", 0, 2 ** 32 - 1), Arg("d", 0, 2 ** 32 - 1)], timeout=300,
                       mode="T", functions=xf[2:]))
    out.append(Job("kernel-v3flags", h_flags, [Arg("auth", 0, 1), Arg("priv", 0, 1), Arg("rep", 0, 1)], timeout=100, mode="T",
                   functions=["puresnmp.adt:V3Flags.__bytes__"]))

    mf = ["puresnmp.pdu:PDU.encode_raw", "puresnmp.pdu:BulkGetRequest.__bytes__",
          "puresnmp_plugins.security.v1:SNMPv1SecurityModel.generate_request_message",
          "puresnmp_plugins.security.v2c:SNMPv2cSecurityModel.generate_request_message", "puresnmp_plugins.mpm.v3:V3MPM.encode",
          "puresnmp.adt:Message.__bytes__", "puresnmp.adt:HeaderData.as_snmp_type", "puresnmp.adt:ScopedPDU.as_snmp_type",
          "puresnmp_plugins.security.usm:USMSecurityParameters.as_snmp_type", "puresnmp_plugins.security.usm:apply_encryption",
          "puresnmp_plugins.security.usm:apply_authentication"]
    I32 = (-2 ** 31, 2 ** 31 - 1)
    BIG = (2 ** 31, 2 ** 63 - 1)

    def margs(rid=I32, n=(0, 0), m=(0, 0), num=(0, 0), nbytes=0, oid2=True, lens=True):
        return [Arg("rid", *rid), Arg("n", *n), Arg("m", *m), Arg("num", *num)] + \
               [Arg(f"o{i}", 0, 255 if i < nbytes else 0) for i in range(4)] + \
               [Arg("oid_sel", 0, len(OID_TABLE) - 1), Arg("oid_sel2", 0, len(OID_TABLE) - 1 if oid2 else 0),
                Arg("len_sel", 0, len(LENGTHS) - 1 if lens else 0)]

    # symbolic request id, traced, v1 / v2c / v3 noAuthNoPriv; OIDs and lengths fixed per job to keep the path count low
    for kind in ("v1", "v2c", "noauth"):
        for op in ("get", "multiget", "getnext", "multigetnext", "walk", "bulkget", "bulkwalk", "set", "multiset"):
            if kind == "v1" and op.startswith("bulk"):
                continue
            if quick and kind == "v1" and op not in ("get", "set"):
                continue
            if quick and kind == "noauth" and op not in ("multiget", "bulkget", "multiset"):
                continue
            m = (2, 2) if op == "bulkget" else ((1, 3) if op == "bulkwalk" else (0, 0))
            if op == "bulkget":
                a = margs(rid=(77, 77), m=(0, 2 ** 31 - 1), oid2=False, lens=False)
                a[-3], a[-2], a[-1] = Arg("oid_sel", 1, 1), Arg("oid_sel2", 4, 4), Arg("len_sel", 2, 2)
                out.append(Job(f"msg-{kind}-bulkget-max-repetitions", make_message_harness(kind, op), a,
                               timeout=400 if quick else 1200, mode="T", functions=mf))
            ranges = [("i32", I32), ("big", BIG)]
            if op == "bulkget":
                # (the GETBULK framing forks more often: split the id range so that the halves run in parallel)
                ranges = [("i32neg", (-2 ** 31, -1)), ("i32pos", (0, 2 ** 31 - 1)), ("big", BIG)]
            for rname, rr in ranges:
                if rname == "big" and (quick and op not in ("get", "bulkget")):
                    continue
                a = margs(rid=rr, m=m, num=(-130, -130), oid2=False, lens=False)
                # pin the table selectors: one OID pair and one length per traced job
                a[-3] = Arg("oid_sel", 1, 1)
                a[-2] = Arg("oid_sel2", 4, 4)
                a[-1] = Arg("len_sel", 2, 2)
                out.append(Job(f"msg-{kind}-{op}-rid-{rname}", make_message_harness(kind, op), a,
                               timeout=400 if quick else 1200, mode="T", functions=mf))
    # SET values of every type, symbolic, traced (v2c)
    for sk in SETKINDS:
        rng = {"int": I32, "c32": (0, 2 ** 32 - 1), "g32": (0, 2 ** 32 - 1), "tt": (0, 2 ** 32 - 1), "c64": (0, 2 ** 64 - 1)}.get(sk, (0, 0))
        nb = {"str": 3, "opaque": 2, "ip": 4}.get(sk, 0)
        a = margs(rid=(77, 77), num=rng, nbytes=nb, oid2=False, lens=False)
        a[-3] = Arg("oid_sel", 6, 6)
        out.append(Job(f"msg-v2c-set-{sk}-value", make_message_harness("v2c", "set", sk, nb), a,
                       timeout=400 if quick else 1200, mode="T", functions=mf))
    # table-driven part (OIDs, lengths, boundary ids), every protocol incl. auth / priv: E window
    for kind in ("v1", "v2c", "noauth", "md5", "sha1", "md5priv", "sha1priv"):
        ops = ("get", "multigetnext", "bulkget", "multiset", "walk")
        for op in ops:
            if kind == "v1" and op == "bulkget":
                continue
            if quick and kind in ("noauth", "sha1", "md5priv") and op not in ("get", "bulkget"):
                continue
            # box 1: every OID pair of the table (ids / lengths fixed); box 2: every id x length x max-repetitions
            a = margs(rid=(4, 4), m=(2, 2), num=(-5, -5))
            a[-1] = Arg("len_sel", 2, 2)
            out.append(Job(f"table-{kind}-{op}-oids", make_message_harness(kind, op, traced=False, sym_rid=False), a,
                           timeout=500 if quick else 1500, mode="E/concolic-window", functions=mf, sample_every=5))
            a = margs(rid=(0, len(RID_SET) - 1), m=(0, 3) if op == "bulkget" else (0, 0), num=(-5, -5))
            a[-3] = Arg("oid_sel", 4, 4)
            a[-2] = Arg("oid_sel2", 1, 1)
            out.append(Job(f"table-{kind}-{op}-fields", make_message_harness(kind, op, traced=False, sym_rid=False), a,
                           timeout=500 if quick else 1500, mode="E/concolic-window", functions=mf, sample_every=5))
    return out
