"""C12 Discovery happens first and timeliness is kept for the client's whole life."""
from engine.core import Arg, Job, choose, known, reached, window
from props import common as C
from props.c01 import _Null
from ref import ber, tramp
from ref import usm as rusm
from ref.agent import Database

META = {
    "explanation": (
        "A virtual clock replaces every clock the client could read (time.time / time.monotonic / "
        "time.perf_counter and every module-level name bound to them in puresnmp) and drives the reference "
        "engine's snmpEngineTime. The history -- advance of the clock before each of up to 4 operations, agent "
        "reboots, the discovery reply's message-id and bindings -- is chosen by the solver. The reference engine's "
        "RFC 3414 3.2 (7) window check on the decoded boots / time is the oracle at the authenticated levels; at "
        "noAuthNoPriv the same inequality is asserted on the decoded security parameters. First datagram must be a "
        "discovery probe; requests must carry the discovered engine id as security and default context engine id. "
        "Traced job: agent boots, time at discovery and the clock advance are symbolic integers travelling through "
        "the Report, the client's cache and arithmetic, and the next request's security parameters."),
    "bounds": ["histories of 1..4 operations (get / set / walk step)", "clock advance before each operation from {0, 1, 149, 150, 151, 3600, 259200, 10^6} s (traced: any 0..10^6)",
               "agent boots in {1, 7, 2^31-2}, time at discovery in {0, 100, 2^30} (traced: any)", "reboot before an operation: yes / no (thorough; reported as known finding F19)",
               "discovery reply: matching / foreign message id, with / without bindings", "levels noAuthNoPriv, authNoPriv (MD5), authPriv (SHA-1)", "default and explicit (different) context engine id", "two clients talking to two engines (different boots / time) on one clock, interleaved with advances", "a discovery exchange that itself takes 200 s"],
    "outside": ["clock going backwards", "snmpEngineTime wrapping past 2^31-1", "client and agent clocks drifting apart (one virtual clock drives both)"],
    "stubs": ["sender = trampoline", "all clocks = one virtual clock", "get_request_id pinned", "privacy plug-in = harness stream cipher"],
    "assumptions": ["a conformant non-authoritative engine may estimate snmpEngineTime from its own clock (RFC 3414 2.3)"],
}

UNIVERSE = [(o, C.value_for(i)) for i, o in enumerate(C.U14)]
ADVANCES = [0, 1, 149, 150, 151, 3600, 259200, 10 ** 6]
BOOTS = [1, 7, 2 ** 31 - 2]
TIMES = [0, 100, 2 ** 30]


class VClock:
    """One virtual clock for client and agent."""

    def __init__(self):
        self.now = 5000  # (integer seconds: int(float) on a symbolic float would realise it)
        self.saved = []

    def read(self):
        return self.now

    def install(self):
        """
        Replace, inside every loaded puresnmp module, each name bound to time.time / time.monotonic /
        time.perf_counter (``from time import ...``) and each name bound to the ``time`` module itself.
        The ``time`` module is left alone (CrossHair reads it for its own deadlines).
        """
        import importlib
        import pkgutil
        import sys
        import time as _time
        C.import_all_puresnmp()
        originals = [_time.time, _time.monotonic, _time.perf_counter]
        clock = self

        class TimeProxy:
            def __getattr__(self, name):
                if name in ("time", "monotonic", "perf_counter"):
                    return clock.read
                return getattr(_time, name)

        proxy = TimeProxy()
        for modname, mod in list(sys.modules.items()):
            if not (modname.startswith("puresnmp") and mod is not None):
                continue
            for attr, val in list(vars(mod).items()):
                if any(val is orig for orig in originals):
                    self.saved.append((mod, attr, val))
                    setattr(mod, attr, self.read)
                elif val is _time:
                    self.saved.append((mod, attr, val))
                    setattr(mod, attr, proxy)
        return self

    def remove(self):
        for mod, name, orig in reversed(self.saved):
            setattr(mod, name, orig)
        self.saved = []


CTX_ENGINE = b"\x80\x00\x1f\x88\x04some-other-context-engine"


def make_harness(kind, nops, reboots=False, traced=False, explicit_ctx=False, disco_delay=0):
    level = {"noauth": 0, "md5": 1, "sha1priv": 3}[kind]

    def h(b_sel, t_sel, a0, a1, a2, a3, r1, r2, r3, disco_id, disco_vb, op_sel):
        from puresnmp.exc import SnmpError, InvalidResponseId
        from x690.types import Integer
        problem = None
        with (_Null() if traced else window()):
            if traced:
                boots0, t0 = b_sel, t_sel
                adv = [a0, a1, a2, a3]
            else:
                boots0 = BOOTS[choose(b_sel, 0, len(BOOTS) - 1)]
                t0 = TIMES[choose(t_sel, 0, len(TIMES) - 1)]
                adv = [ADVANCES[choose(a, 0, len(ADVANCES) - 1)] for a in (a0, a1, a2, a3)[:nops]]
            rb = [0] + [choose(r, 0, 1) if reboots else 0 for r in (r1, r2, r3)]
            bad_id = choose(disco_id, 0, 1)
            no_vb = choose(disco_vb, 0, 1)
            ops = choose(op_sel, 0, 2)
            vc = VClock().install()
            state = {"boots": boots0, "epoch": vc.now - t0}   # engine time = now - epoch
            try:
                world = C.World(kind, Database(UNIVERSE), boots=boots0, clock=lambda: int(vc.now - state["epoch"]),
                                engine_id=CTX_ENGINE if explicit_ctx else b"")
                eng = world.engine
                if disco_delay:
                    # the discovery probe reaches the agent only after `disco_delay` seconds (lost probes, retries)
                    plain_answer = world.answer

                    def delayed_answer(req):
                        try:
                            if ber.dec_v3_msg(req.data).usm.engine_id == b"":
                                vc.now += disco_delay
                        except ber.BerError:
                            pass
                        return plain_answer(req)

                    world.answer = delayed_answer
                if bad_id:
                    orig_report = eng.report
                    eng.report = lambda msg_id, *a, **kw: orig_report(msg_id + 1, *a, **kw)
                if no_vb:
                    eng.discovery_without_bindings = True
                rebooted = False
                try:
                    for k in range(nops):
                        vc.now += adv[k]
                        if rb[k]:
                            state["boots"] += 1
                            eng.boots = state["boots"]
                            state["epoch"] = vc.now      # snmpEngineTime restarts at 0
                            rebooted = True
                        before = len(world.exchanges)
                        try:
                            op = (ops + k) % 3
                            if op == 0:
                                got = C.to_ref(world.run(world.client.get(C.poid(C.U14[2]))))
                                ok = got == UNIVERSE[2][1]
                            elif op == 1:
                                got = C.to_ref(world.run(world.client.set(C.poid(C.U14[3]), Integer(k))))
                                ok = got == ("int", k)
                            else:
                                got = C.vb_to_ref(world.run(world.client.getnext(C.poid(C.U14[2]))))
                                ok = got[0] == C.U14[3]
                            outcome = "ok" if ok else "wrong-data %r" % (got,)
                        except InvalidResponseId:
                            outcome = "invalid-id"
                        except SnmpError as exc:
                            fid = world.known_exception(exc)
                            outcome = "skip" if fid and known(fid) else "snmp-error: %s" % exc
                        except Exception as exc:  # noqa: BLE001
                            outcome = "other: %s: %s" % (type(exc).__name__, exc)
                        if outcome == "skip":
                            break
                        new = world.exchanges[before:]
                        # --- discovery comes first, exactly as RFC 3414 section 4 describes it
                        if k == 0:
                            if not new:
                                problem = "nothing was sent"
                                break
                            probe = ber.dec_v3_msg(new[0][0])
                            if not (probe.flags == 4 and probe.usm.engine_id == b"" and probe.usm.user == b"" and probe.scoped is not None
                                    and probe.scoped.pdu.varbinds == [] and probe.usm.auth == b"" and probe.usm.priv == b""):
                                problem = "first datagram is not a discovery probe: flags %r user %r" % (probe.flags, probe.usm.user)
                                break
                            if bad_id or no_vb:
                                if outcome in ("ok",) or outcome.startswith("wrong") or outcome.startswith("other"):
                                    problem = "discovery reply with %s accepted: %s" % ("foreign message id" if bad_id else "no bindings", outcome)
                                elif len(new) > 1:
                                    problem = "a request was sent although discovery failed"
                                break
                        # --- every request carries the discovered engine id and a timely boots/time
                        for data, _resp in (new[1:] if k == 0 else new):
                            msg = ber.dec_v3_msg(data)
                            if msg.usm.engine_id != eng.engine_id:
                                problem = "security engine id %r" % (msg.usm.engine_id,)
                            elif msg.scoped is not None and msg.scoped.ctx_engine_id != (CTX_ENGINE if explicit_ctx else eng.engine_id):
                                problem = "context engine id %r" % (msg.scoped.ctx_engine_id,)
                            elif not rebooted:
                                now_engine = int(vc.now - state["epoch"])
                                if msg.usm.boots != state["boots"] or not (now_engine - 150 <= msg.usm.time <= now_engine + 150):
                                    problem = "request %d carries boots/time %r/%r, agent is at %r/%r" % (
                                        k, msg.usm.boots, msg.usm.time, state["boots"], now_engine)
                            if problem:
                                break
                        if problem:
                            break
                        if outcome != "ok":
                            if rebooted and known("F19"):
                                break
                            problem = "operation %d (advance %r) failed: %s" % (k, adv[:k + 1], outcome)
                            break
                finally:
                    world.close()
            finally:
                vc.remove()
        reached()
        if problem:
            h.last_problem = problem
            return False
        return True

    return h


def make_two_clients(kind):
    """Client A discovers, time passes, client B (another agent) discovers, time passes, A and B issue requests."""
    def h(a0, a1, a2, order):
        problem = None
        with window():
            adv = [ADVANCES[choose(a, 0, len(ADVANCES) - 1)] for a in (a0, a1, a2)]
            first = choose(order, 0, 1)
            vc = VClock().install()
            try:
                worlds = []
                for wi in range(2):
                    start = vc.now
                    t0 = 100 + 5000 * wi
                    worlds.append(C.World(kind, Database(UNIVERSE), boots=3 + wi, clock=(lambda t0=t0: int(vc.now - 5000) + t0),
                                          agent_engine_id=(C.ENGINE_ID if wi == 0 else b"\x80\x00\x1f\x88\x04second-engine")))
                try:
                    plan = [(0, adv[0]), (1, adv[1]), (first, adv[2]), (1 - first, 0)]
                    for step, (wi, wait) in enumerate(plan):
                        vc.now += wait
                        w = worlds[wi]
                        before = len(w.exchanges)
                        try:
                            got = C.to_ref(w.run(w.client.get(C.poid(C.U14[2]))))
                            if got != UNIVERSE[2][1]:
                                problem = "step %d: client %d got %r" % (step, wi, got)
                        except Exception as exc:  # noqa: BLE001
                            fid = w.known_exception(exc)
                            if fid and known(fid):
                                break
                            problem = "step %d (waits %r): client %d failed: %s: %s" % (step, adv, wi, type(exc).__name__, exc)
                        if problem:
                            break
                        now_engine = w.engine.clock()
                        for data, _resp in w.exchanges[before:]:
                            msg = ber.dec_v3_msg(data)
                            if msg.usm.engine_id == b"":
                                continue
                            if msg.usm.engine_id != w.engine.engine_id or msg.usm.boots != w.engine.boots \
                                    or not (now_engine - 150 <= msg.usm.time <= now_engine + 150):
                                problem = "step %d: client %d sent engine/boots/time %r/%r/%r, its agent is at %r/%r" % (
                                    step, wi, msg.usm.engine_id, msg.usm.boots, msg.usm.time, w.engine.boots, now_engine)
                        if problem:
                            break
                finally:
                    for w in worlds:
                        w.close()
            finally:
                vc.remove()
        reached()
        if problem:
            h.last_problem = problem
            return False
        return True
    return h


def jobs(tier):
    quick = tier == "quick"
    out = []
    tf = ["puresnmp_plugins.mpm.v3:V3MPM.encode", "puresnmp_plugins.security.usm:UserSecurityModel.send_discovery_message",
          "puresnmp_plugins.security.usm:UserSecurityModel.generate_request_message", "puresnmp_plugins.security.usm:UserSecurityModel.set_engine_timing",
          "puresnmp_plugins.security.usm:validate_usm_message"]

    def args(nops, reboots, discos=True):
        a = [Arg("boots", 0, len(BOOTS) - 1), Arg("t0", 0, len(TIMES) - 1)]
        a += [Arg(f"adv{i}", 0, len(ADVANCES) - 1 if i < nops else 0) for i in range(4)]
        a += [Arg(f"reboot{i}", 0, 1 if (reboots and i < nops) else 0) for i in (1, 2, 3)]
        a += [Arg("disco_id", 0, 1 if discos else 0), Arg("disco_vb", 0, 1 if discos else 0), Arg("op", 0, 2)]
        return a

    for kind in ("noauth", "md5", "sha1priv"):
        for first in range(len(ADVANCES)):
            a2 = args(2, False)
            a2[2] = Arg("adv0", first, first)
            if quick:
                a2[0] = Arg("boots", 1, 1)
            out.append(Job(f"history-{kind}-2ops-adv{ADVANCES[first]}", make_harness(kind, 2), a2, timeout=500 if quick else 1500,
                           mode="E/concolic-window", functions=tf, sample_every=13))
        if not quick or kind == "md5":
            a3 = args(3, False, discos=False)
            a3[0] = Arg("boots", 1, 1)
            if quick:
                a3[1] = Arg("t0", 1, 1)
            out.append(Job(f"history-{kind}-3ops", make_harness(kind, 3), a3, timeout=600 if quick else 1500,
                           mode="E/concolic-window", functions=tf, sample_every=29))
        if not quick:
            a3r = args(3, True, discos=False)
            a3r[0], a3r[1] = Arg("boots", 1, 1), Arg("t0", 1, 1)
            out.append(Job(f"history-{kind}-3ops-reboots", make_harness(kind, 3, reboots=True), a3r, timeout=1500,
                           mode="E/concolic-window", functions=tf, sample_every=29))
    # an explicit context engine id (different from the agent's engine id) must not disturb the timeliness bookkeeping
    for kind in ("md5", "sha1priv") if not quick else ("md5",):
        for nops in (2, 3):
            ax = args(nops, False, discos=False)
            ax[0], ax[1] = Arg("boots", 1, 1), Arg("t0", 1, 1)
            out.append(Job(f"history-{kind}-{nops}ops-explicit-context-engine-id", make_harness(kind, nops, explicit_ctx=True), ax,
                           timeout=600 if quick else 1500, mode="E/concolic-window", functions=tf, sample_every=13))
    for kind in ("md5",) if quick else ("noauth", "md5", "sha1priv"):
        out.append(Job(f"two-clients-{kind}", make_two_clients(kind), [Arg(f"adv{i}", 0, len(ADVANCES) - 1) for i in range(3)] + [Arg("order", 0, 1)],
                       timeout=600, mode="E/concolic-window", functions=tf, sample_every=13))
    for kind in ("md5",) if quick else ("md5", "sha1priv"):
        ad = args(2, False, discos=False)
        ad[0], ad[1] = Arg("boots", 1, 1), Arg("t0", 1, 1)
        out.append(Job(f"history-{kind}-2ops-discovery-takes-200s", make_harness(kind, 2, disco_delay=200), ad, timeout=600,
                       mode="E/concolic-window", functions=tf, sample_every=7))
    ar = args(2, True, discos=False)
    if quick:
        ar[0], ar[1] = Arg("boots", 0, 0), Arg("t0", 0, 1)
    out.append(Job("reboot-md5-2ops", make_harness("md5", 2, reboots=True), ar, timeout=500,
                   mode="E/concolic-window", functions=tf, sample_every=13))
    # traced: boots / time / advance symbolic through Report -> cache -> arithmetic -> request
    tail = [Arg(f"reboot{i}", 0, 0) for i in (1, 2, 3)] + [Arg("disco_id", 0, 0), Arg("disco_vb", 0, 0), Arg("op", 0, 0)]
    a = [Arg("boots", 7, 7), Arg("t0", 0, 2 ** 30), Arg("adv0", 0, 0), Arg("adv1", 0, 10 ** 6), Arg("adv2", 0, 0), Arg("adv3", 0, 0)] + tail
    out.append(Job("traced-noauth-symbolic-time-and-advance", make_harness("noauth", 2, traced=True), a, timeout=900 if quick else 1500,
                   mode="T", functions=tf))
    a = [Arg("boots", 0, 2 ** 31 - 2), Arg("t0", 100, 100), Arg("adv0", 0, 0), Arg("adv1", 151, 151), Arg("adv2", 0, 0), Arg("adv3", 0, 0)] + tail
    out.append(Job("traced-noauth-symbolic-boots", make_harness("noauth", 2, traced=True), a, timeout=900 if quick else 1500,
                   mode="T", functions=tf))
    return out
