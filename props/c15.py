"""C15 Pythonic wrapper returns only built-in Python types, equal to the raw results."""
from engine.core import Arg, Job, choose, decide, known, reached, window
from props import common as C
from ref import ber
from ref.agent import Database

META = {
    "explanation": (
        "Mode E: the agent database (presence bit per object) and the SNMP type of the stored values (a rotation "
        "through all value kinds selected by a solver variable) are symbolic; every PyWrapper operation runs "
        "against the reference agent and its result is (1) walked recursively -- every element, dictionary keys "
        "included, must be one of the built-in types the property lists -- and (2) compared with the element-wise "
        "pythonisation of what the raw Client returns for the same exchange on a second client in the same path."),
    "bounds": ["operations get, getnext, multiget, set, multiset, walk, multiwalk, bulkwalk, bulkget, table, bulktable",
               "database: 2 scalars + a 2-column x 3-row table, each object present or absent", "value kinds: all 11 (rotation offset symbolic)", "bulk size 1..3", "OIDs spelled without / with / partly with a leading dot"],
    "outside": ["larger databases", "TrapInfo (C19)"],
    "stubs": ["sender = trampoline", "get_request_id pinned"],
    "assumptions": ["BulkResult is the documented container of bulkget; its two mappings are checked"],
}

T = C.O("5")
CELLS = [T + (1, c, r) for c in (1, 2) for r in (1, 2, 10)]
SCALARS = [C.O("1.1.0"), C.O("1.2.0")]
OBJECTS = SCALARS + CELLS
KINDS = [("int", -7), ("str", b"text"), ("oid", (1, 3, 6, 1, 4, 1, 1)), ("ip", bytes([10, 1, 2, 3])), ("c32", 4000000000), ("g32", 77),
         ("tt", 8640001), ("opaque", b"\x01\x02"), ("c64", 2 ** 63 + 1), ("str", b""), ("null",)]
OPS = ["get", "getnext", "multiget", "set", "multiset", "walk", "multiwalk", "bulkwalk", "bulkget", "table", "bulktable"]


def allowed(obj, path="result"):
    """None if *obj* consists of built-in types only, else the offending path."""
    from datetime import timedelta
    from ipaddress import IPv4Address
    from puresnmp.util import BulkResult
    if obj is None or type(obj) in (str, int, bytes, timedelta, IPv4Address):
        return None
    if type(obj) in (list, tuple) or (isinstance(obj, tuple) and type(obj).__name__ == "PyVarBind"):
        for i, item in enumerate(obj):
            bad = allowed(item, "%s[%d]" % (path, i))
            if bad:
                return bad
        return None
    if isinstance(obj, dict) and type(obj).__name__ in ("dict", "OrderedDict"):
        for k, v in obj.items():
            bad = allowed(k, "%s key %r" % (path, k)) or allowed(v, "%s[%r]" % (path, k))
            if bad:
                return bad
        return None
    if type(obj) is BulkResult:
        return allowed(obj.scalars, path + ".scalars") or allowed(obj.listing, path + ".listing")
    return "%s is a %s.%s" % (path, type(obj).__module__, type(obj).__name__)


def pyvb(vb):
    return (vb.oid.pythonize(), vb.value.pythonize())


def run_both(world_py, world_raw, op, bulk, dot=0):
    from puresnmp.api.pythonic import PyWrapper
    from x690.types import Integer, OctetString
    py = PyWrapper(world_py.client)
    raw = world_raw.client
    # the wrapper accepts OIDs with and without a leading dot; dot=2 mixes both spellings
    spell = [0]

    def s(nodes):
        spell[0] += 1
        lead = dot == 1 or (dot == 2 and spell[0] % 2 == 1)
        return ("." if lead else "") + ber.oid_str(nodes)
    P = C.poid
    if op == "get":
        return world_py.run(py.get(s(SCALARS[0]))), world_raw.run(raw.get(P(SCALARS[0]))).pythonize()
    if op == "getnext":
        return tuple(world_py.run(py.getnext(s(SCALARS[0])))), pyvb(world_raw.run(raw.getnext(P(SCALARS[0]))))
    if op == "multiget":
        oids = [SCALARS[1], CELLS[0], CELLS[4]]
        return world_py.run(py.multiget([s(o) for o in oids])), [v.pythonize() for v in world_raw.run(raw.multiget([P(o) for o in oids]))]
    if op == "set":
        return world_py.run(py.set(s(SCALARS[0]), OctetString(b"new"))), world_raw.run(raw.set(P(SCALARS[0]), OctetString(b"new"))).pythonize()
    if op == "multiset":
        a = world_py.run(py.multiset({s(SCALARS[0]): Integer(3), s(CELLS[1]): OctetString(b"x")}))
        b = world_raw.run(raw.multiset({P(SCALARS[0]): Integer(3), P(CELLS[1]): OctetString(b"x")}))
        return a, {str(k): v.pythonize() for k, v in b.items()}
    if op == "walk":
        return ([tuple(v) for v in world_py.collect(py.walk(s(T)))], [pyvb(v) for v in world_raw.collect(raw.walk(P(T)))])
    if op == "multiwalk":
        roots = [C.O("1"), T]
        return ([tuple(v) for v in world_py.collect(py.multiwalk([s(r) for r in roots]))],
                [pyvb(v) for v in world_raw.collect(raw.multiwalk([P(r) for r in roots]))])
    if op == "bulkwalk":
        return ([tuple(v) for v in world_py.collect(py.bulkwalk([s(T)], bulk_size=bulk))],
                [pyvb(v) for v in world_raw.collect(raw.bulkwalk([P(T)], bulk_size=bulk))])
    if op == "bulkget":
        a = world_py.run(py.bulkget([s(C.O("1.1"))], [s(T)], max_list_size=bulk))
        b = world_raw.run(raw.bulkget([P(C.O("1.1"))], [P(T)], max_list_size=bulk))
        return a, ({str(k): v.pythonize() for k, v in b.scalars.items()}, [(str(k), v.pythonize()) for k, v in b.listing.items()])
    if op == "table":
        a = world_py.run(py.table(s(T + (1,))))
        b = world_raw.run(raw.table(P(T + (1,))))
        return a, [{k: (v if k == "0" else v.pythonize()) for k, v in row.items()} for row in b]
    if op == "bulktable":
        a = world_py.run(py.bulktable(s(T), bulk_size=bulk))
        b = world_raw.run(raw.bulktable(P(T), bulk_size=bulk))
        return a, [{k: (v if k == "0" else v.pythonize()) for k, v in row.items()} for row in b]
    raise ValueError(op)


def make_harness(op):
    def h(*args):
        from puresnmp.util import BulkResult
        bits, rot, bulk_sym, dot_sym = args[:len(OBJECTS)], args[len(OBJECTS)], args[len(OBJECTS) + 1], args[len(OBJECTS) + 2]
        memo = {}

        def present(i):
            if i not in memo:
                memo[i] = decide(bits[i])
            return memo[i]

        problem = None
        with window():
            r = choose(rot, 0, len(KINDS) - 1)
            bulk = choose(bulk_sym, 1, 3)
            dot = choose(dot_sym, 0, 2)
            universe = [(o, KINDS[(r + i) % len(KINDS)]) for i, o in enumerate(OBJECTS)] + [(C.O("9.1"), ("int", 1))]
            order = sorted(range(len(universe)), key=lambda i: universe[i][0])
            # Database sorts the universe; map its index back to the symbolic bit of the object
            def present_sorted(j):
                i = order[j]
                return True if i >= len(OBJECTS) else present(i)
            world_py = C.World("v2c", Database(universe, present_sorted))
            world_raw = C.World("v2c", Database(universe, present_sorted))
            try:
                try:
                    got_py, got_raw = run_both(world_py, world_raw, op, bulk, dot)
                    outcome = "ok"
                except Exception as exc:  # noqa: BLE001
                    outcome = exc
            finally:
                world_py.close()
                world_raw.close()
            if outcome != "ok":
                # the wrapper may only fail where the raw client fails too (e.g. NoSuchOID for a missing object)
                try:
                    w2 = C.World("v2c", Database(universe, present_sorted))
                    try:
                        from puresnmp.api.pythonic import PyWrapper
                        run_both(w2, w2, op, bulk, dot)
                        raw_fails = False
                    except Exception as exc2:  # noqa: BLE001
                        raw_fails = type(exc2) is type(outcome)
                    finally:
                        w2.close()
                except Exception:  # noqa: BLE001
                    raw_fails = False
                if not raw_fails:
                    problem = "%s: %s" % (type(outcome).__name__, outcome)
            else:
                problem = allowed(got_py)
                if problem is None:
                    if op == "bulkget":
                        if not (type(got_py) is BulkResult and dict(got_py.scalars) == got_raw[0]
                                and list(got_py.listing.items()) == got_raw[1]):
                            problem = "bulkget %r differs from the raw result %r" % (got_py, got_raw)
                    elif op in ("table", "bulktable"):
                        key = lambda row: row["0"]
                        if sorted(got_py, key=key) != sorted(got_raw, key=key):
                            problem = "%s rows %r differ from the raw rows %r" % (op, got_py, got_raw)
                    elif got_py != got_raw:
                        problem = "%s returned %r, raw result pythonised %r" % (op, got_py, got_raw)
        reached()
        if problem:
            h.last_problem = problem
            return False
        return True

    return h


def jobs(tier):
    quick = tier == "quick"
    out = []
    funcs = ["puresnmp.api.pythonic:PyWrapper." + n for n in ("get", "getnext", "multiget", "set", "multiset", "walk", "multiwalk",
                                                            "bulkwalk", "bulkget", "table", "bulktable")]
    funcs += ["puresnmp.varbind:PyVarBind.from_raw", "puresnmp.types:TimeTicks.pythonize"]
    for op in OPS:
        dots = (0, 1, 2) if op in ("get", "getnext", "multiget", "set", "multiset", "bulkget") else (0, 1)
        for dot in dots:
            a = [Arg(f"p{i}", 0, 1) for i in range(len(OBJECTS))] + [Arg("rot", 0, len(KINDS) - 1), Arg("bulk", 1, 3 if op.startswith("bulk") else 1),
                                                                      Arg("dot", dot, dot)]
            out.append(Job(f"wrapper-{op}-dot{dot}", make_harness(op), a, timeout=600 if quick else 1500, mode="E/concolic-window",
                           functions=funcs, sample_every=23))
    return out
