"""C09 USM: no unauthenticated, altered or downgraded response is ever accepted."""
from engine.core import Arg, Job, choose, known, reached, window
from props import common as C
from props.c01 import _Null
from ref import ber
from ref import usm as rusm
from ref.agent import Database

META = {
    "explanation": (
        "Two layers. Unit level (mode T, ideal MAC): UserSecurityModel.process_incoming_message with "
        "verify_authentication, decrypt_message, validate_usm_message is executed by CrossHair on messages built "
        "from the real dataclasses with symbolic msgFlags (auth, priv, reportable), symbolic user name match, "
        "PDU class (Response / usmStats Report / other Report), payload form (scoped PDU / OCTET STRING) and "
        "credential level; the authentication plug-in is an ideal MAC returning a symbolic verdict and recording "
        "that it was asked. z3 decides every branch: a normal return for a user with an auth key implies the MAC "
        "was consulted and said yes, for a privacy user that the payload was cipher-text, and never a Report. "
        "End to end (mode E, real HMAC-MD5/SHA-1): an on-path attacker -- a solver-chosen octet substitution "
        "(position and value), truncation, flags byte, digest forgery, foreign user / engine id, plaintext under "
        "privacy credentials, Report in place of the Response -- acts on an authentic response of the reference "
        "engine; the caller must get an exception or exactly the authentic result."),
    "bounds": ["unit: all 2^3 flag combinations x MAC verdict x user match x 3 PDU kinds x 2 payload forms x 3 credential levels",
               "end to end: authentic responses for get and the 2nd request of a walk, MD5 / SHA-1, authNoPriv / authPriv",
               "substitution: every position (quick: positions 0..79 stride per job) x {8 single-bit flips, 0x00, 0xFF, 0x80, 0x30, 0x04} (thorough: positions 0..239; all 256 values for four of the eight authentic responses)",
               "every truncation point", "flags 0..7", "digest in {right, other key, other user's key, zeroed, empty, 11 octets}", "forged content combined with a zero / wrong-key / authentic / empty digest field (thorough: every one-octet digest)"],
    "outside": ["forgery of HMAC-MD5-96 / HMAC-SHA-96 itself (ideal-MAC assumption at the unit level)", "replay of old authentic messages (timeliness is C12)",
                "two or more simultaneous substitutions"],
    "stubs": ["unit level: usm.auth.create -> ideal MAC; usm.priv.create -> recording identity cipher", "end to end: sender = trampoline, privacy = harness stream cipher, x690.decode call budget (non-termination counts as an exception here, see C20)"],
    "assumptions": ["HMAC-MD5-96 / HMAC-SHA-96 are unforgeable"],
}

UNIVERSE = [(o, C.value_for(i)) for i, o in enumerate(C.U14)]


# --------------------------------------------------------------------- unit
def make_unit(level):
    def h(auth_flag, priv_flag, reportable, digest_ok, user_ok, pdu_kind, payload_form):
        import puresnmp_plugins.security.usm as usm
        from puresnmp.adt import EncryptedMessage, HeaderData, PlainMessage, ScopedPDU, V3Flags
        from puresnmp.credentials import V3, Auth, Priv
        from puresnmp.pdu import GetResponse, PDUContent, Report
        from puresnmp.varbind import VarBind
        from x690.types import Integer, ObjectIdentifier, OctetString
        kind = choose(pdu_kind, 0, 2)
        form = choose(payload_form, 0, 1)
        uok = choose(user_ok, 0, 1)
        creds = V3("alice", Auth(b"authpass", "md5") if level >= 1 else None,
                   Priv(b"privpass", "verifunit") if level >= 2 else None)
        if kind == 0:
            pdu = GetResponse(PDUContent(7, [VarBind(ObjectIdentifier("1.3.6.1.2.1.1.1.0"), Integer(42))]))
        elif kind == 1:
            pdu = Report(PDUContent(7, [VarBind(ObjectIdentifier("1.3.6.1.6.3.15.1.1.5.0"), Integer(1))]))
        else:
            pdu = Report(PDUContent(7, [VarBind(ObjectIdentifier("1.3.6.1.6.3.11.2.1.3.0"), Integer(1))]))
        scoped = ScopedPDU(OctetString(b"engine"), OctetString(b""), pdu)
        params = usm.USMSecurityParameters(b"engine", 1, 1, b"alice" if uok else b"mallory", b"\x01" * 12, b"salt")
        header = HeaderData(7, 65507, V3Flags(bool(auth_flag), bool(priv_flag), bool(reportable)), 3)
        if form == 0:
            msg = PlainMessage(Integer(3), header, bytes(params), scoped)
        else:
            msg = EncryptedMessage(Integer(3), header, bytes(params), OctetString(b"ciphertext"))
        asked = {"mac": 0, "decrypt": 0}

        class Mac:
            @staticmethod
            def authenticate_incoming_message(key, data, digest, engine_id):
                asked["mac"] += 1
                return bool(digest_ok)

            @staticmethod
            def authenticate_outgoing_message(key, data, engine_id):
                return b"\x01" * 12

        class Cipher:
            @staticmethod
            def decrypt_data(key, engine_id, boots, time, salt, data):
                asked["decrypt"] += 1
                return bytes(scoped)

        from engine.core import seam
        seam(usm, "auth"), seam(usm, "priv")
        saved = (seam(usm.auth, "create"), seam(usm.priv, "create"), seam(usm, "localise_key"))
        usm.auth.create = lambda method: Mac
        usm.priv.create = lambda method: Cipher
        usm.localise_key = lambda credentials, engine_id: b"k" * 16
        try:
            try:
                out = usm.UserSecurityModel().process_incoming_message(msg, creds)
                returned = True
            except Exception:  # noqa: BLE001  (any exception is a refusal)
                returned = False
        finally:
            usm.auth.create, usm.priv.create, usm.localise_key = saved
        reached()
        if not returned:
            return True
        # a message was accepted
        if not uok:
            return False
        if isinstance(out.scoped_pdu.data, Report):
            return False
        if level >= 1 and not (asked["mac"] >= 1 and digest_ok):
            return False
        # (an authentic message -- MAC verdict yes -- can only come from the agent itself, whatever its
        #  payload form; for a privacy user the cipher-text path must have gone through the privacy plug-in)
        if level >= 2 and form == 1 and asked["decrypt"] < 1:
            return False
        return True

    return h


# --------------------------------------------------------------- end to end
ATTACKS = ["substitute", "truncate", "flags", "digest", "identity", "plaintext", "report"]
SUBST_VALUES = [0x00, 0xFF, 0x80, 0x30, 0x04]


def flags_position(resp):
    """Absolute position of the msgFlags octet (found with the independent decoder)."""
    tag, cs, ce = ber.read_tlv(resp, 0)
    kids = ber.read_children(resp, cs, ce)
    hdr = ber.read_children(resp, kids[1][2], kids[1][3])
    return hdr[2][2]


def make_e2e(kind, op, attack, pos_lo=0, pos_hi=0, all_values=False, sign_top=3):
    which = 2 if op == "walk" else 1   # which authenticated exchange is attacked (after discovery)

    def run(world):
        c = world.client
        if op == "get":
            return [C.to_ref(world.run(c.get(C.poid(C.U14[2]))))]
        return [C.vb_to_ref(v) for v in world.collect(c.walk(C.poid(C.ROOTS["A"])), budget=40)]

    def h(a, b):
        problem = None
        with window():
            honest = C.World(kind, Database(UNIVERSE))
            try:
                expected = run(honest)
                authentic = honest.exchanges[which][1]
            finally:
                honest.close()
            n = len(authentic)
            user = C.USERS[kind]
            other = C.USERS["sha1" if kind.startswith("md5") else "md5"]
            world = C.World(kind, Database(UNIVERSE))
            eng = world.engine
            count = [0]
            note = [""]

            def attacker(resp):
                if attack == "substitute":
                    p = choose(a, pos_lo, min(pos_hi, n - 1))
                    if all_values:
                        v = choose(b, 0, 255)
                    else:
                        sel = choose(b, 0, 12)
                        v = (resp[p] ^ (1 << sel)) if sel < 8 else SUBST_VALUES[sel - 8]
                    note[0] = "octet %d: %#x -> %#x" % (p, resp[p], v)
                    return resp[:p] + bytes([v]) + resp[p + 1:]
                if attack == "truncate":
                    t = choose(a, 0, n - 1)
                    note[0] = "truncated to %d of %d" % (t, n)
                    return resp[:t]
                msg = ber.dec_v3_msg(resp)
                if attack == "flags":
                    f = choose(a, 0, 7)
                    p = flags_position(resp)
                    note[0] = "flags %d -> %d" % (resp[p], f)
                    return resp[:p] + bytes([f]) + resp[p + 1:]
                span = msg.usm.auth_span
                if attack == "digest":
                    sel = choose(a, 0, 5)
                    zeroed = rusm.zero_auth(resp, span)
                    if sel == 0:
                        return resp
                    if sel == 1:
                        digest = rusm.hmac96(user.auth_proto, rusm.localised_key(user.auth_proto, b"wrong-password", eng.engine_id), zeroed)
                    elif sel == 2:
                        digest = rusm.hmac96(other.auth_proto, rusm.localised_key(other.auth_proto, other.auth_password, eng.engine_id), zeroed)
                    elif sel == 3:
                        digest = b"\x00" * 12
                    else:
                        digest = None
                    note[0] = "digest kind %d" % sel
                    if digest is not None:
                        return resp[:span[0]] + digest + resp[span[1]:]
                    # re-assemble with an empty / 11-octet digest field
                    short = b"" if sel == 4 else resp[span[0]:span[1] - 1]
                    usm_raw = ber.enc_usm(msg.usm.engine_id, msg.usm.boots, msg.usm.time, msg.usm.user, short, msg.usm.priv)
                    data = resp[msg.data_span[0]:msg.data_span[1]]
                    return ber.enc_v3_msg(msg.msg_id, msg.max_size, msg.flags, 3, usm_raw, data)
                if attack in ("identity", "plaintext", "report"):
                    sel = choose(a, 0, 3)
                    # 0 unsigned (zero digest), 1 signed with a wrong key, 2 authentic digest kept,
                    # 3 empty digest field, 4.. a one-octet digest guess (value sign - 4)
                    sign = choose(b, 0, sign_top)
                    flags = msg.flags
                    user_name, engine_id = msg.usm.user, msg.usm.engine_id
                    data = resp[msg.data_span[0]:msg.data_span[1]]
                    priv_params = msg.usm.priv
                    if attack == "identity":
                        if sel in (0, 2):
                            user_name = b"mallory" if sel == 0 else other.name
                        else:
                            engine_id = b"\x80\x00\x00\x00\x05evil" if sel == 1 else b""
                    else:
                        # forged plaintext payload carrying attacker-chosen data
                        rid = eng.log[-1].pdu.request_id
                        tag = ber.P_RESPONSE if attack == "plaintext" else ber.P_REPORT
                        oid = C.U14[2] if sel % 2 == 0 else ber.oid("1.3.6.1.6.3.11.2.1.3.0")
                        pdu = ber.enc_pdu(tag, rid, 0, 0, [(oid, ("str", b"forged"))])
                        data = ber.enc_scoped(eng.engine_id, b"", pdu)
                        flags = (flags % 4) if sel < 2 else 0      # keep the level bits / clear them (downgrade)
                        if attack == "report" and sel >= 2:
                            flags = 0
                    auth_field = b"\x00" * 12 if flags % 2 == 1 or sign else b""
                    if sign == 2:
                        auth_field = msg.usm.auth
                    elif sign == 3:
                        auth_field = b""
                    elif sign >= 4:
                        auth_field = bytes([sign - 4])
                    usm_raw = ber.enc_usm(engine_id, msg.usm.boots, msg.usm.time, user_name, auth_field, priv_params)
                    forged = ber.enc_v3_msg(msg.msg_id, msg.max_size, flags, 3, usm_raw, data)
                    if sign == 1 and len(auth_field) == 12:
                        forged = rusm.sign(forged, user.auth_proto, rusm.localised_key(user.auth_proto, b"wrong-password", eng.engine_id))
                    note[0] = "%s sel %d sign %d flags %d" % (attack, sel, sign, flags)
                    return forged
                raise ValueError(attack)

            def answer(req):
                resp = world.answer(req)
                count[0] += 1
                if count[0] == which + 1:   # exchange 0 is discovery
                    return attacker(resp)
                return resp

            from ref import tramp
            outcome = None
            try:
                with C.DecodeBudget(6 * n + 200):
                    try:
                        c = world.client
                        if op == "get":
                            got = [C.to_ref(tramp.drive(c.get(C.poid(C.U14[2])), answer, budget=40))]
                        else:
                            got = [C.vb_to_ref(v) for v in tramp.drain(c.walk(C.poid(C.ROOTS["A"])), answer, budget=40)]
                        outcome = ("returned", got)
                    except Exception as exc:  # noqa: BLE001  (any exception is a refusal)
                        outcome = ("refused", exc)
            finally:
                world.close()
            if outcome[0] == "returned" and outcome[1] != expected:
                problem = "%s: caller got %r, authentic result %r" % (note[0], outcome[1], expected)
        reached()
        if problem:
            h.last_problem = problem
            return False
        return True

    return h


def jobs(tier):
    quick = tier == "quick"
    out = []
    uf = ["puresnmp_plugins.security.usm:UserSecurityModel.process_incoming_message",
          "puresnmp_plugins.security.usm:verify_authentication", "puresnmp_plugins.security.usm:decrypt_message",
          "puresnmp_plugins.security.usm:validate_usm_message", "puresnmp_plugins.security.usm:reset_digest"]
    for level in (0, 1, 2):
        out.append(Job(f"unit-idealmac-level{level}", make_unit(level),
                       [Arg("auth_flag", 0, 1), Arg("priv_flag", 0, 1), Arg("reportable", 0, 1), Arg("digest_ok", 0, 1),
                        Arg("user_ok", 0, 1), Arg("pdu_kind", 0, 2), Arg("payload_form", 0, 1)], timeout=500, mode="T", functions=uf))
    ef = uf + ["puresnmp_plugins.mpm.v3:V3MPM.decode", "puresnmp.adt:Message.decode", "puresnmp_plugins.auth.hashbase:get_message_digest"]
    kinds = ["md5", "sha1", "md5priv", "sha1priv"]
    for kind in kinds:
        for op in ("get", "walk"):
            if quick and (kind, op) not in (("md5", "get"), ("sha1priv", "get"), ("sha1", "walk"), ("md5priv", "walk")):
                continue
            primary = (kind, op) in (("md5", "get"), ("sha1priv", "get"), ("sha1", "walk"), ("md5priv", "walk"))
            allv = (not quick) and primary      # every value of the octet (thorough, four of the eight responses)
            chunk = 20 if not allv else 8
            top = 80 if quick else 240
            for lo in range(0, top, chunk):
                out.append(Job(f"e2e-{kind}-{op}-substitute-{lo:03d}", make_e2e(kind, op, "substitute", lo, lo + chunk - 1, allv),
                               [Arg("pos", lo, lo + chunk - 1), Arg("val", 0, 255 if allv else 12)],
                               timeout=500 if quick else 1500, mode="E/concolic-window", functions=ef, sample_every=41))
            out.append(Job(f"e2e-{kind}-{op}-truncate", make_e2e(kind, op, "truncate"), [Arg("cut", 0, 400), Arg("unused", 0, 0)],
                           timeout=500, mode="E/concolic-window", functions=ef, sample_every=11))
            out.append(Job(f"e2e-{kind}-{op}-flags", make_e2e(kind, op, "flags"), [Arg("flags", 0, 7), Arg("unused", 0, 0)],
                           timeout=300, mode="E/concolic-window", functions=ef))
            out.append(Job(f"e2e-{kind}-{op}-digest", make_e2e(kind, op, "digest"), [Arg("sel", 0, 5), Arg("unused", 0, 0)],
                           timeout=300, mode="E/concolic-window", functions=ef))
            for attack in ("identity", "plaintext", "report"):
                top = 3 if (quick or attack != "plaintext") else 4 + 255
                out.append(Job(f"e2e-{kind}-{op}-{attack}", make_e2e(kind, op, attack, sign_top=top), [Arg("sel", 0, 3), Arg("sign", 0, top)],
                               timeout=300 if quick else 1200, mode="E/concolic-window", functions=ef, sample_every=7))
    return out
