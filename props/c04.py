"""C04 GET/GETNEXT/SET/GETBULK results are exactly the agent's answers, in order."""
from engine.core import Arg, Job, choose, decide, known, reached, window
from props import common as C
from props.c01 import _Null
from ref import ber
from ref.agent import EOMV, NSI, Database
from ref.ber import Pdu

META = {
    "explanation": (
        "Mode E: symbolic agent database (presence bit per object, values of every SNMP type), symbolic request "
        "list (1..3 solver-chosen indexes into a candidate list containing present-able, never-present, last-of-"
        "view and beyond-view objects, duplicates allowed), symbolic non-repeaters / max-repetitions, symbolic "
        "SET value type, symbolic tampering of the response (one binding added / dropped / get-bulk response one "
        "larger than n + m*r). The real Client methods run over v1 / v2c / v3; the oracle is the reference "
        "agent's database and its independently decoded request log."),
    "bounds": ["database: 8 objects, every value type", "request lists of 1..3 (quick: 1..2) out of 6 candidates",
               "non-repeaters 0..2, max-repetitions 0..3", "tamper: none / +1 binding / -1 binding / bulk n+m*r+1",
               "v1, v2c, v3 noAuthNoPriv / authNoPriv / authPriv"],
    "outside": ["request lists longer than 3", "databases larger than 8 objects", "SET payloads other than the 10 sample values (C05 covers value ranges)"],
    "stubs": ["sender = trampoline", "get_request_id pinned", "privacy plug-in = harness stream cipher"],
    "assumptions": ["reference agent implements RFC 3416 4.2.1-4.2.3, 4.2.5 and RFC 1157 noSuchName for v1",
                    "where the statement is silent (get-next of the last object, v1 noSuchName) any exception or the endOfMibView marker is accepted"],
}

U8 = [C.O(s) for s in ("1.9.0", "2.1.1", "2.1.2", "2.1.2.1", "2.2.1", "2.10.1", "4.1.0", "9.1")]
UNIVERSE = [(o, C.value_for(i)) for i, o in enumerate(U8)]
CAND = [C.O("1.9.0"), C.O("2.1.1"), C.O("2.1.3"), C.O("2.2.1"), C.O("9.1"), C.O("9.9")]
SETVALS = [("int", -129), ("str", b"new contact"), ("oid", (1, 3, 6, 1, 4, 1, 9)), ("ip", bytes([10, 0, 0, 1])),
           ("c32", 2 ** 32 - 1), ("g32", 0), ("tt", 360000), ("opaque", b"\x00\xff"), ("c64", 2 ** 64 - 1), ("str", b"")]
OPS = ["get", "multiget", "getnext", "multigetnext", "set", "multiset", "bulkget"]


CAND_BULK = [C.O("1.9.0"), C.O("2.1.1"), C.O("2.2.1"), C.O("9.1")]


def make_harness(kind, op, maxk, traced=False, kfix=0):
    v1 = kind == "v1"
    CAND = CAND_BULK if op == "bulkget" else globals()["CAND"]

    def h(*args):
        from puresnmp.exc import NoSuchOID, SnmpError, ErrorResponse
        bits = args[:8]
        i_sym = args[8:11]
        k_sym, tamper_sym, n_sym, m_sym, val_sym = args[11:16]
        memo = {}

        def present(i):
            if i not in memo:
                memo[i] = decide(bits[i])
            return memo[i]

        db = Database(UNIVERSE, present)
        problem = None
        with (_Null() if traced else window()):
            single = op in ("get", "getnext", "set")
            k = 1 if single else choose(k_sym, 1, max(maxk, kfix))
            idxs = [choose(i_sym[j], 0, len(CAND) - 1) for j in range(k)]
            oids = [CAND[i] for i in idxs]
            tamper = choose(tamper_sym, 0, 2) if op != "bulkget" else (0, 2, 3)[choose(tamper_sym, 0, 2)]
            n = choose(n_sym, 0, 2) if op == "bulkget" else 0
            m = choose(m_sym, 0, 3) if op == "bulkget" else 0
            vsel = choose(val_sym, 0, len(SETVALS) - 1) if op in ("set", "multiset") else 0
            world = C.World(kind, db)
            sent = {}

            def tamper_fn(req, resp):
                sent["honest"] = resp
                vbs = list(resp.varbinds)
                if resp.f1 != 0:
                    return resp
                if tamper == 1:
                    vbs.append((C.O("9.7.7"), ("int", 1)))
                elif tamper == 2 and vbs:
                    vbs.pop()
                elif tamper == 3:
                    # a get-bulk response one larger than n + m*r
                    total = len(req.varbinds)
                    nn = max(min(req.f1, total), 0)
                    limit = nn + max(req.f2, 0) * (total - nn)
                    while len(vbs) <= limit:
                        vbs.append((C.O("9.7.%d" % len(vbs)), ("int", 1)))
                sent["tampered"] = len(vbs) != len(resp.varbinds)
                return resp._replace(varbinds=vbs)

            world.agent.tamper = tamper_fn
            poids = [C.poid(o) for o in oids]
            c = world.client
            outcome = None
            try:
                try:
                    if op == "get":
                        res = world.run(c.get(poids[0]))
                    elif op == "multiget":
                        res = world.run(c.multiget(poids))
                    elif op == "getnext":
                        res = world.run(c.getnext(poids[0]))
                    elif op == "multigetnext":
                        res = world.run(c.multigetnext(poids))
                    elif op == "set":
                        res = world.run(c.set(poids[0], C.from_ref(SETVALS[vsel])))
                    elif op == "multiset":
                        mapping = {}
                        for j, po in enumerate(poids):
                            mapping[po] = C.from_ref(SETVALS[(vsel + j) % len(SETVALS)])
                        res = world.run(c.multiset(mapping))
                    else:
                        res = world.run(c.bulkget(poids[:min(n, k)], poids[min(n, k):], max_list_size=m))
                    outcome = ("returned", res)
                except SnmpError as exc:
                    fid = world.known_exception(exc)
                    outcome = ("skip", None) if fid and known(fid) else ("snmp-error", exc)
                except Exception as exc:  # noqa: BLE001
                    outcome = ("other", exc)
            finally:
                world.close()
            if outcome[0] == "skip":
                return True
            problem = judge(op, v1, oids, db, world, outcome, sent, tamper, n, m, vsel, k)
        reached()
        if problem:
            h.last_problem = problem
            if problem.startswith("F02:") and known("F02"):
                return True
            if problem.startswith("F01:") and known("F01"):
                return True
            return False
        return True

    return h


def judge(op, v1, oids, db, world, outcome, sent, tamper, n, m, vsel, k):
    from puresnmp.exc import NoSuchOID, SnmpError
    honest = sent.get("honest")
    tampered = sent.get("tampered", False)
    kind, val = outcome
    agent = world.agent
    if honest is None:
        return "the agent never saw a request (outcome %r)" % (outcome,)
    req = agent.requests[-1]
    # the request the agent decoded independently must be the one intended (order, duplicates)
    if op != "bulkget" and [o for o, _ in req.varbinds] != (list(oids) if op != "multiset" else list(dict.fromkeys(oids))):
        return "agent received OIDs %r, caller asked %r" % ([o for o, _ in req.varbinds], oids)
    if honest.f1 != 0:
        # v1 noSuchName (statement silent): must not come back as data
        if kind == "returned":
            return "agent answered error-status %d but the call returned %r" % (honest.f1, val)
        return None
    if tampered:
        if op == "bulkget" and tamper in (1, 2):
            pass  # a shorter or by-one-longer-but-within-limit response is judged as data below
        elif kind != "snmp-error":
            return "response with %s binding(s) than requested was not refused: %r" % ("more" if tamper in (1, 3) else "fewer", outcome)
        else:
            return None
    answer = list(honest.varbinds)
    if op == "bulkget":
        total = len(req.varbinds)
        nn = max(min(req.f1, total), 0)
        limit = nn + max(req.f2, 0) * (total - nn)
        actual = list(answer)
        if tamper == 1:
            actual.append((C.O("9.7.7"), ("int", 1)))
        elif tamper == 2 and actual:
            actual.pop()
        elif tamper == 3:
            while len(actual) <= limit:
                actual.append((C.O("9.7.%d" % len(actual)), ("int", 1)))
        if len(actual) > limit:
            return None if kind == "snmp-error" else "get-bulk response of %d bindings (max %d) accepted: %r" % (len(actual), limit, outcome)
        if kind != "returned":
            if kind == "snmp-error" and type(val).__name__ == "FaultySNMPImplementation" and tamper == 1:
                return None  # the added binding is not a successor of its column: refusing it is fine
            return "conformant get-bulk response refused: %s %s" % (type(val).__name__, val)
        if req.f1 != min(n, k) or req.f2 != m:
            return "agent saw non-repeaters %d max-repetitions %d, caller gave %d %d" % (req.f1, req.f2, min(n, k), m)
        ns = min(n, k)
        scal = actual[:ns]
        reps = actual[ns:]
        got_scal = sorted((tuple(o.nodes), C.to_ref(v)) for o, v in val.scalars.items())
        if got_scal != sorted(dict(scal).items()):
            return "scalars %r, agent sent %r" % (got_scal, scal)
        got_list = [(tuple(o.nodes), C.to_ref(v)) for o, v in val.listing.items()]
        live = [(o, v) for o, v in reps if v != EOMV]
        want = list(dict(live).items())
        if got_list != want:
            dup = len(dict(live)) != len(live)
            seen = False
            eom_before_live = False
            for _o, v in reps:
                if v == EOMV:
                    seen = True
                elif seen:
                    eom_before_live = True
            if eom_before_live:
                return "F02: listing %r, agent sent %r" % (got_list, reps)
            return "listing %r, agent sent %r" % (got_list, reps)
        return None
    if kind == "other":
        if op == "getnext" and any(v == EOMV for _, v in answer):
            return None  # get-next of the last object: statement silent
        return "unexpected %s: %s" % (type(val).__name__, val)
    if op == "get":
        if answer[0][1] in (NSI, ("nso",)):
            return None if isinstance(val, NoSuchOID) else "missing object: outcome %r" % (outcome,)
        return None if kind == "returned" and C.to_ref(val) == answer[0][1] else "get %r, agent holds %r" % (outcome, answer[0])
    if op == "multiget":
        if kind != "returned":
            return "multiget refused: %r" % (val,)
        return None if [C.to_ref(v) for v in val] == [v for _, v in answer] else "multiget %r, agent sent %r" % (val, answer)
    if op == "getnext":
        if answer[0][1] == EOMV:
            return None  # statement silent
        return None if kind == "returned" and C.vb_to_ref(val) == answer[0] else "getnext %r, successor %r" % (outcome, answer[0])
    if op == "multigetnext":
        if kind != "returned":
            if any(v == EOMV for _, v in answer):
                return None
            return "multigetnext refused: %r" % (val,)
        got = [C.vb_to_ref(v) for v in val]
        if got == answer:
            return None
        first_eom = next((i for i, (_, v) in enumerate(answer) if v == EOMV), None)
        if first_eom is not None and got == answer[:first_eom]:
            if all(v == EOMV for _, v in answer[first_eom:]):
                return None  # only exhausted columns were cut (statement silent)
            return "F01: successors after an exhausted column were dropped: %r of %r" % (got, answer)
        return "multigetnext %r, successors %r" % (got, answer)
    # set / multiset: exactly the typed values were delivered, and the confirmation is returned
    uniq = list(dict.fromkeys(oids))
    supplied = {}
    for j, o in enumerate(oids):
        supplied[o] = SETVALS[(vsel + j) % len(SETVALS)] if op == "multiset" else SETVALS[vsel]
    delivered = agent.sets[-len(req.varbinds):]
    if delivered != [(o, supplied[o]) for o in uniq]:
        return "agent received %r, caller supplied %r" % (delivered, supplied)
    if kind != "returned":
        return "set refused: %r" % (val,)
    if op == "set":
        return None if C.to_ref(val) == supplied[oids[0]] else "set returned %r" % (val,)
    got = sorted((tuple(o.nodes), C.to_ref(v)) for o, v in val.items())
    return None if got == sorted(supplied.items()) else "multiset returned %r, confirmed %r" % (got, supplied)


def jobs(tier):
    quick = tier == "quick"
    maxk = 2 if quick else 3
    out = []
    funcs = ["puresnmp.api.raw:Client.get", "puresnmp.api.raw:Client.multiget", "puresnmp.api.raw:Client.getnext",
             "puresnmp.api.raw:Client.multigetnext", "puresnmp.api.raw:Client.set", "puresnmp.api.raw:Client.multiset",
             "puresnmp.api.raw:Client.bulkget", "puresnmp.api.raw:Client._send", "puresnmp.pdu:PDU.encode_raw", "puresnmp.pdu:PDU.decode_raw"]

    def args(op, n=None, m=None):
        ncand = len(CAND_BULK) if op == "bulkget" else len(CAND)
        a = [Arg(f"p{i}", 0, 1) for i in range(8)] + [Arg(f"i{j}", 0, ncand - 1) for j in range(3)]
        a += [Arg("k", 1, maxk), Arg("tamper", 0, 2),
              Arg("n", 0 if n is None else n, 2 if n is None else n), Arg("m", 0 if m is None else m, 3 if m is None else m),
              Arg("val", 0, len(SETVALS) - 1)]
        return a

    for kind in ("v1", "v2c", "noauth", "md5", "sha1priv"):
        for op in OPS:
            if kind == "v1" and op == "bulkget":
                continue
            if quick and kind in ("md5", "noauth") and op not in ("multiget", "multiset", "bulkget"):
                continue
            if quick and kind == "sha1priv" and op not in ("get", "multigetnext", "set"):
                continue
            if quick and kind == "v1" and op not in ("get", "multiget", "getnext", "multiset"):
                continue
            if op == "bulkget":
                for n in range(3):
                    for m in range(4):
                        if quick and kind != "v2c" and (n, m) != (1, 2):
                            continue
                        if not quick and kind not in ("v2c", "v1") and m == 3:
                            continue   # (thorough: max-repetitions 3 with lists of 3 only over v2c -- ~3000 s per job over v3)
                        if quick and kind == "v2c" and (n, m) in ((2, 0), (0, 0), (0, 3), (2, 3), (2, 2)):
                            continue
                        out.append(Job(f"{kind}-bulkget-n{n}-m{m}", make_harness(kind, op, maxk), args(op, n, m),
                                       timeout=500 if quick else 1500, mode="E/concolic-window", functions=funcs, sample_every=23))
                continue
            out.append(Job(f"{kind}-{op}", make_harness(kind, op, maxk), args(op), timeout=500 if quick else 1500,
                           mode="E/concolic-window", functions=funcs, sample_every=23))
    # three OIDs in one get-bulk: 1 non-repeater + 2 repeaters, 2 + 1, 0 + 3 (request lists from 3 candidates)
    for n in (0, 1, 2):
        a = args("bulkget", n, 2)
        a[8], a[9], a[10] = Arg("i0", 0, 2), Arg("i1", 1, 3), Arg("i2", 1, 3)
        a[11] = Arg("k", 3, 3)
        out.append(Job(f"v2c-bulkget-3oids-n{n}-m2", make_harness("v2c", "bulkget", maxk, kfix=3), a, timeout=500 if quick else 1500,
                       mode="E/concolic-window", functions=funcs, sample_every=23))
    out.append(Job("traced-v2c-multiget", make_harness("v2c", "multiget", 1, traced=True),
                   [Arg(f"p{i}", 0, 1 if i in (1, 4) else 0) for i in range(8)] + [Arg("i0", 1, 3), Arg("i1", 0, 0), Arg("i2", 0, 0),
                    Arg("k", 1, 1), Arg("tamper", 0, 1), Arg("n", 0, 0), Arg("m", 0, 0), Arg("val", 0, 0)],
                   timeout=500, mode="E/traced", functions=funcs))
    return out
