"""C07 Only the response to the request actually sent is ever returned."""
from engine.core import Arg, Job, choose, known, reached, window
from props import common as C
from props.c01 import _Null
from ref import ber
from ref.agent import Database

META = {
    "explanation": (
        "The clock read by puresnmp.util.get_request_id is a stub returning solver-chosen non-decreasing "
        "instants (each of up to 6 reads may or may not tick), the agent reads the request-id out of the "
        "datagram with the independent decoder and answers with id + d (d a solver variable), community "
        "string and version field of the reply are solver-chosen. The real operations run against it over "
        "v1 / v2c / v3; CrossHair/z3 enumerate every distinguishable schedule of clock ticks and replies. "
        "The request ids themselves flow through the real BER encoder (client), the independent decoder "
        "(agent), the independent encoder and the real decoder."),
    "bounds": ["clock: base instant 1700000000, each of the first 6 reads advances by 0 or 1 s (all 64 schedules), one job with a 2^31 wrap-around base",
               "response id offset d in {0, +1, -1, +1000, -2^31, +2^32, -2^32, 3*2^32, 2^40} (any integer can be sent)", "reply community in {same, prefix, other, empty, with a trailing / leading non-ASCII octet, other case, extension, trailing NUL}; reply version in {same, other}",
               "discovery reply message-id offset in {0, 1}", "operations get, multiget, getnext, multigetnext, set, multiset, bulkget, 1st and 2nd request of walk and bulkwalk",
               "v1, v2c, v3 noAuthNoPriv / authNoPriv / authPriv"],
    "outside": ["clocks that jump by more than one second between two reads (the code only compares ids for equality)",
                "clocks that go backwards"],
    "stubs": ["sender = trampoline", "puresnmp.util.time = scheduled clock stub", "privacy plug-in = harness stream cipher"],
    "assumptions": [],
}

UNIVERSE = [(o, C.value_for(i)) for i, o in enumerate(C.U14)]
OIDS = [C.U14[2], C.U14[3]]
OPS = ["get", "multiget", "getnext", "multigetnext", "set", "multiset", "bulkget", "walk1", "walk2", "bulkwalk1", "bulkwalk2"]
OFFSETS = [0, 1, -1, 1000, -2 ** 31, 2 ** 32, -2 ** 32, 3 * 2 ** 32, 2 ** 40]
COMMUNITIES = [None, b"publi", b"private", b"", b"public\xff", b"\x80public", b"Public", b"public1", b"public\x00"]


class Clock:
    def __init__(self, base, ticks):
        self.now = base
        self.ticks = list(ticks)
        self.reads = 0

    def __call__(self):
        if self.reads < len(self.ticks):
            self.now += self.ticks[self.reads]
        self.reads += 1
        return float(self.now)


def run_op(world, op):
    from x690.types import Integer
    c = world.client
    oids = [C.poid(o) for o in OIDS]
    if op == "get":
        return [C.to_ref(world.run(c.get(oids[0])))]
    if op == "multiget":
        return [C.to_ref(v) for v in world.run(c.multiget(oids))]
    if op == "getnext":
        return [C.vb_to_ref(world.run(c.getnext(oids[0])))]
    if op == "multigetnext":
        return [C.vb_to_ref(v) for v in world.run(c.multigetnext(oids))]
    if op == "set":
        return [C.to_ref(world.run(c.set(oids[0], Integer(5))))]
    if op == "multiset":
        res = world.run(c.multiset({o: Integer(i) for i, o in enumerate(oids)}))
        return sorted((tuple(k.nodes), C.to_ref(v)) for k, v in res.items())
    if op == "bulkget":
        res = world.run(c.bulkget(oids[:1], oids[1:], max_list_size=2))
        return [sorted((tuple(k.nodes), C.to_ref(v)) for k, v in res.scalars.items()),
                [(tuple(k.nodes), C.to_ref(v)) for k, v in res.listing.items()]]
    if op.startswith("walk"):
        return [C.vb_to_ref(v) for v in world.collect(c.walk(C.poid(C.ROOTS["A"])))]
    if op.startswith("bulkwalk"):
        return [C.vb_to_ref(v) for v in world.collect(c.bulkwalk([C.poid(C.ROOTS["A"])], bulk_size=2))]
    raise ValueError(op)


def make_harness(kind, op, base=1700000000, traced=False):
    v3 = kind not in ("v1", "v2c")
    which = 2 if op.endswith("2") else 1

    def h(t0, t1, t2, t3, t4, t5, d_sel, comm_sel, ver_sel, disco_sel):
        import puresnmp.util as util
        from puresnmp.exc import InvalidResponseId, SnmpError
        problem = None
        with (_Null() if traced else window()):
            ticks = [choose(t, 0, 1) for t in (t0, t1, t2, t3, t4, t5)]
            d = OFFSETS[choose(d_sel, 0, len(OFFSETS) - 1)]
            comm = COMMUNITIES[choose(comm_sel, 0, len(COMMUNITIES) - 1)] if not v3 else None
            other_version = choose(ver_sel, 0, 1) == 1 if not v3 else False
            disco_off = choose(disco_sel, 0, 1) if v3 else 0
            # reference run with an honest agent and a frozen clock -> the data the caller must get
            from engine.core import seam
            saved_time = seam(util, "time")
            try:
                util.time = Clock(base, [])
                ref_world = C.World(kind, Database(UNIVERSE), pin_ids=False)
                try:
                    expected = run_op(ref_world, op)
                finally:
                    ref_world.close()
                util.time = Clock(base, ticks)
                world = C.World(kind, Database(UNIVERSE), pin_ids=False)
                counter = [0]
                agent = world.agent

                def tamper(req, resp):
                    counter[0] += 1
                    if counter[0] == which and d != 0:
                        # the id in the datagram (read by the independent decoder) + d
                        # (any integer can be put on the wire; no wrapping)
                        return resp._replace(request_id=req.request_id + d)
                    return resp

                agent.tamper = tamper
                if comm is not None:
                    agent.reply_community = comm
                if other_version:
                    agent.reply_version = 0 if agent.version == 1 else 1
                if v3 and disco_off:
                    world.engine.msg_id_offset = 0
                    orig_report = world.engine.report

                    def report(msg_id, *a, **kw):
                        return orig_report(msg_id + 1, *a, **kw)

                    world.engine.report = report
                try:
                    try:
                        got = run_op(world, op)
                        outcome = ("returned", got)
                    except InvalidResponseId as exc:
                        outcome = ("invalid-id", exc)
                    except SnmpError as exc:
                        fid = world.known_exception(exc)
                        outcome = ("skip", None) if fid and known(fid) else ("snmp-error", exc)
                    except Exception as exc:  # noqa: BLE001
                        outcome = ("other", exc)
                finally:
                    world.close()
            finally:
                util.time = saved_time
            tampered = d != 0 and counter[0] >= which
            if outcome[0] == "skip":
                return True
            if outcome[0] == "other":
                problem = "unexpected %s: %s" % (type(outcome[1]).__name__, outcome[1])
            elif v3 and disco_off:
                if outcome[0] not in ("invalid-id", "snmp-error"):
                    problem = "discovery reply with a foreign message id was accepted: %r" % (outcome,)
            elif comm is not None or other_version:
                if outcome[0] not in ("snmp-error", "invalid-id"):
                    problem = "reply with community %r / other version %r was accepted" % (comm, other_version)
            elif tampered:
                if outcome[0] != "invalid-id":
                    problem = "response id off by %d but outcome %r" % (d, outcome)
            else:
                if outcome[0] != "returned":
                    problem = "conformant agent (ticks %r) refused: %s %s" % (ticks, outcome[0], outcome[1])
                elif outcome[1] != expected:
                    problem = "returned %r, agent's data %r" % (outcome[1], expected)
        reached()
        if problem:
            h.last_problem = problem
            return False
        return True

    return h


def jobs(tier):
    quick = tier == "quick"
    out = []
    funcs = ["puresnmp.api.raw:Client._send", "puresnmp.util:get_request_id", "puresnmp.util:validate_response_id",
             "puresnmp_plugins.security.v1:SNMPv1SecurityModel.process_incoming_message",
             "puresnmp_plugins.security.v2c:SNMPv2cSecurityModel.process_incoming_message",
             "puresnmp_plugins.security.usm:UserSecurityModel.send_discovery_message"]

    def args(v3, nticks, allcomm=True):
        a = [Arg(f"t{i}", 0, 1 if i < nticks else 0) for i in range(6)]
        a += [Arg("d_sel", 0, len(OFFSETS) - 1)]
        a += [Arg("comm_sel", 0, 0 if v3 else (len(COMMUNITIES) - 1 if allcomm else 3)), Arg("ver_sel", 0, 0 if v3 else 1), Arg("disco_sel", 0, 1 if v3 else 0)]
        return a

    for kind in ("v1", "v2c", "noauth", "md5", "sha1priv"):
        v3 = kind not in ("v1", "v2c")
        for op in OPS:
            if kind == "v1" and op.startswith("bulk"):
                continue
            if quick and kind in ("v1", "md5", "sha1priv") and op not in ("get", "multiset", "walk2"):
                continue
            if quick and kind == "noauth" and op not in ("multiget", "set", "bulkget", "bulkwalk2"):
                continue
            nticks = 3 if op in ("get", "multiget", "getnext", "multigetnext", "set", "multiset", "bulkget") and not v3 else (4 if quick else 6)
            out.append(Job(f"{kind}-{op}", make_harness(kind, op), args(v3, nticks, allcomm=(not quick or op in ("get", "walk2", "bulkget"))),
                           timeout=400 if quick else 1200,
                           mode="E/concolic-window", functions=funcs, sample_every=9))
    out.append(Job("v2c-multiset-wrap-base", make_harness("v2c", "multiset", base=2 ** 31 - 2), args(False, 3), timeout=400,
                   mode="E/concolic-window", functions=funcs, sample_every=9))
    out.append(Job("traced-v2c-multiget", make_harness("v2c", "multiget", traced=True),
                   [Arg(f"t{i}", 0, 1 if i < 2 else 0) for i in range(6)] + [Arg("d_sel", 0, 1), Arg("comm_sel", 0, 1),
                    Arg("ver_sel", 0, 0), Arg("disco_sel", 0, 0)], timeout=500, mode="E/traced", functions=funcs))
    return out
