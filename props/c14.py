"""C14 Concurrent operations on a shared client do not disturb one another."""
from engine.core import Arg, Job, choose, known, reached, window
from props import common as C
from ref import ber, tramp
from ref.agent import Database

META = {
    "explanation": (
        "Several operations are started on one client (or on two clients) and held suspended at their network "
        "exchanges by the coroutine trampoline; a solver variable per step picks which pending exchange is answered "
        "next, so every interleaving of the exchanges is a path and CrossHair/z3 enumerate them exhaustively. Each "
        "operation's result must equal the result of running it alone against the same agent; over SNMPv3 every "
        "datagram must still be accepted by the reference engine (user, keys, ids not mixed up; repeated discovery "
        "allowed). Request ids are derived from a frozen clock (all concurrent operations share one id) in one "
        "family of jobs and from a counter in the other."),
    "bounds": ["2 or 3 concurrent operations drawn from get, multiget, walk, bulkwalk, set, second walk", "every interleaving of their exchanges (up to 16 scheduling steps)",
               "v2c and v3 authPriv (SHA-1 + harness cipher), v3 authNoPriv (MD5)", "one shared client; two clients with different credentials talking to two agents with different engine ids / boots / time on one scheduler"],
    "outside": ["more than 3 concurrent operations", "real sockets / the kernel's scheduler"],
    "stubs": ["sender = trampoline; scheduler = harness", "clock frozen or request ids from a counter", "privacy plug-in = harness stream cipher"],
    "assumptions": ["the agent is stateless apart from SET targets, which are distinct per operation"],
}

UNIVERSE = [(o, C.value_for(i)) for i, o in enumerate(C.U14)]
OPNAMES = ["get", "multiget", "walkA", "bulkwalkC", "set", "walkB", "getnext"]


def start(client, name, idx):
    from x690.types import Integer
    if name == "get":
        return client.get(C.poid(C.U14[2]))
    if name == "multiget":
        return client.multiget([C.poid(C.U14[3]), C.poid(C.U14[6])])
    if name == "walkA":
        return tramp.collect(client.walk(C.poid(C.ROOTS["A"])))
    if name == "walkB":
        return tramp.collect(client.multiwalk([C.poid(C.ROOTS["B"]), C.poid(C.ROOTS["D"])]))
    if name == "bulkwalkC":
        return tramp.collect(client.bulkwalk([C.poid(C.ROOTS["C"])], bulk_size=2))
    if name == "set":
        return client.set(C.poid(C.O("7.%d.0" % idx)), Integer(100 + idx))
    if name == "getnext":
        return client.getnext(C.poid(C.U14[8]))
    raise ValueError(name)


def norm(name, res):
    if name in ("get", "set"):
        return C.to_ref(res)
    if name == "multiget":
        return [C.to_ref(v) for v in res]
    if name == "getnext":
        return C.vb_to_ref(res)
    return [C.vb_to_ref(v) for v in res]


def make_harness(kinds, names, frozen_ids, nsteps):
    """kinds: one entry per client; operation i runs on client i % len(kinds)."""
    def h(*sched):
        import puresnmp.util as util
        problem = None
        with window():
            # each operation alone
            alone = []
            for i, name in enumerate(names):
                wi = i % len(kinds)
                w = C.World(kinds[wi], Database(UNIVERSE), boots=7 + 5 * wi, clock=(lambda wi=wi: 1000 + 100000 * wi),
                            agent_engine_id=(C.ENGINE_ID if wi == 0 else b"\x80\x00\x1f\x88\x04engine-%d" % wi))
                try:
                    try:
                        alone.append(norm(name, w.run(start(w.client, name, i))))
                    except Exception as exc:  # noqa: BLE001
                        fid = w.known_exception(exc)
                        if fid and known(fid):
                            return True   # the operation cannot even run alone because of a listed finding
                        raise
                finally:
                    w.close()
            from engine.core import seam
            saved_time = seam(util, "time")
            worlds = [C.World(k, Database(UNIVERSE), pin_ids=not frozen_ids, boots=7 + 5 * wi, clock=(lambda wi=wi: 1000 + 100000 * wi),
                              agent_engine_id=(C.ENGINE_ID if wi == 0 else b"\x80\x00\x1f\x88\x04engine-%d" % wi))
                      for wi, k in enumerate(kinds)]
            if frozen_ids:
                util.time = lambda: 1700000000.0
            try:
                ops = [tramp.Op(start(worlds[i % len(worlds)].client, name, i)) for i, name in enumerate(names)]
                step = 0
                while True:
                    pending = [i for i, op in enumerate(ops) if not op.done]
                    if not pending:
                        break
                    if step >= nsteps:
                        problem = "more than %d scheduling steps" % nsteps
                        break
                    pick = pending[choose(sched[step], 0, len(pending) - 1)] if len(pending) > 1 else pending[0]
                    step += 1
                    op = ops[pick]
                    world = worlds[pick % len(worlds)]
                    op.answer(world.answer(op.pending))
                if problem is None:
                    for i, (name, op) in enumerate(zip(names, ops)):
                        if op.error is not None:
                            fid = worlds[i % len(worlds)].known_exception(op.error)
                            if fid and known(fid):
                                continue
                            problem = "operation %s failed under this interleaving: %s: %s" % (name, type(op.error).__name__, op.error)
                            break
                        got = norm(name, op.result)
                        if got != alone[i]:
                            problem = "operation %s returned %r, alone it returns %r" % (name, got, alone[i])
                            break
                if problem is None:
                    for world in worlds:
                        if world.engine is not None:
                            bad = [v.reason for v in world.engine.log if not v.accepted]
                            if bad:
                                problem = "reference engine refused a datagram: %s" % bad[0]
            finally:
                util.time = saved_time
                for world in worlds:
                    world.close()
        reached()
        if problem:
            h.last_problem = problem
            return False
        return True

    return h


def jobs(tier):
    quick = tier == "quick"
    out = []
    funcs = ["puresnmp.api.raw:Client._send", "puresnmp.api.raw:Client.multiwalk", "puresnmp.api.raw:Client.bulkget",
             "puresnmp_plugins.mpm.v3:V3MPM.encode", "puresnmp_plugins.security.usm:UserSecurityModel.generate_request_message",
             "puresnmp.util:get_request_id"]
    combos = [("get", "walkA"), ("walkA", "bulkwalkC"), ("set", "multiget"), ("walkA", "walkB"), ("set", "set"), ("getnext", "bulkwalkC")]
    triples = [("get", "walkA", "set"), ("multiget", "bulkwalkC", "getnext")] + ([] if quick else [("walkA", "walkB", "bulkwalkC"), ("set", "set", "get")])
    nsteps = 16 if quick else 22
    for kinds in (("v2c",), ("sha1priv",), ("md5",), ("v2c", "sha1priv"), ("md5", "sha1priv")):
        for names in combos + triples:
            if "walkB" in names and "md5" in kinds:
                continue   # over md5/authNoPriv the two-root walk runs into known finding F08 (a 127-octet TLV): vacuous
            if names == ("walkA", "walkB", "bulkwalkC") and kinds != ("v2c",):
                continue   # 72072 interleavings: only on the cheapest protocol
            if quick:
                if kinds == ("md5",) and names not in (("get", "walkA"), ("set", "set"), ("walkA", "bulkwalkC")):
                    continue
                if len(kinds) == 2 and names not in (("walkA", "bulkwalkC"), ("set", "multiget"), ("get", "walkA", "set")):
                    continue
                if kinds == ("sha1priv",) and len(names) == 3 and names != ("get", "walkA", "set"):
                    continue
            for frozen in (True, False):
                if quick and not frozen and len(names) == 3:
                    continue
                if quick and not frozen and kinds not in (("v2c",), ("md5",)) and names not in (("get", "walkA"), ("set", "multiget")):
                    continue
                name = "%s-%s-%s" % ("+".join(kinds), "+".join(names), "frozen-clock" if frozen else "counter-ids")
                heavy = len(names) == 3 and (any(k != "v2c" for k in kinds) or names == ("walkA", "walkB", "bulkwalkC"))
                parts = [(a, b) for a in range(3) for b in range(3)] if heavy else [None]
                for part in parts:
                    a = [Arg(f"s{i}", 0, len(names) - 1) for i in range(nsteps)]
                    pname = name
                    if part is not None:
                        a[0], a[1] = Arg("s0", part[0], part[0]), Arg("s1", part[1], part[1])
                        pname = name + "-first%d%d" % part
                    out.append(Job(pname, make_harness(kinds, names, frozen, nsteps), a,
                                   timeout=600 if quick else 1500, mode="E/concolic-window", functions=funcs, sample_every=17))
    return out
