"""C08 Agent error-status always surfaces as the documented exception, never as data."""
from engine.core import Arg, Job, choose, known, reached, window
from props import common as C
from props.c01 import _Null
from ref import ber
from ref.agent import Database
from ref.ber import Pdu

META = {
    "explanation": (
        "The reference agent answers with a scripted (error-status, error-index) pair and a binding list of "
        "n entries, all three solver variables. The real operation runs over the real v1 / v2c / v3 message "
        "processing; the outcome is compared with an RFC 3416 status table written out in the harness. "
        "Because ErrorResponse.construct looks the status up in a dict (hashing realises a symbolic int), the "
        "status and index are concretised by forking in the harness (exhaustive over the stated range, "
        "CrossHair confirms exhaustion) and the client runs inside a concolic window. A fully traced variant "
        "(fields symbolic through the BER decoder) was tried and dropped: the exception's message formatting "
        "with symbolic operands costs ~6 s per path."),
    "bounds": ["box 1: error-status -2..24 plus 255, 2^31-1, -2^31, error-index 0..1, response echoes the request's bindings",
               "box 2: error-status in {2, 5, 19}, error-index -2..5, n = 0..3 bindings in the response", "1..3 OIDs in the request", "walk / bulkwalk / table: the error also scripted for the 2nd response only (status 2 there may end the walk, as documented)", "operations get, multiget, getnext, multigetnext, set, multiset, bulkget, walk, bulkwalk, table, and walk / multiwalk in lenient mode (errors=\"warn\")",
               "v1, v2c, v3 noAuthNoPriv / authNoPriv(MD5) / authPriv(SHA-1 + harness cipher)"],
    "outside": ["error-status values other than the listed ones (the dict lookup in ErrorResponse.construct forces enumeration)"],
    "stubs": ["sender = trampoline", "get_request_id pinned", "privacy plug-in = harness stream cipher"],
    "assumptions": ["documented mapping = class names in puresnmp.exc keyed by RFC 3416 error-status numbers"],
}

TABLE = {1: "TooBig", 2: "NoSuchOID", 3: "BadValue", 4: "ReadOnly", 5: "GenErr", 6: "NoAccess", 7: "WrongType",
         8: "WrongLength", 9: "WrongEncoding", 10: "WrongValue", 11: "NoCreation", 12: "InconsistentValue",
         13: "ResourceUnavailable", 14: "CommitFailed", 15: "UndoFailed", 16: "AuthorizationError",
         17: "NotWritable", 18: "InconsistentName"}
FAR = {25: 255, 26: 2 ** 31 - 1, 27: -2 ** 31}
STATUS_LO, STATUS_HI = -2, 27

UNIVERSE = [(o, C.value_for(i)) for i, o in enumerate(C.U14)]
OIDS = [C.U14[2], C.U14[3], C.U14[5]]
OPS = ["get", "multiget", "getnext", "multigetnext", "set", "multiset", "bulkget", "walk", "bulkwalk", "table"]


def run_op(world, op, noids):
    from x690.types import Integer
    c = world.client
    oids = [C.poid(o) for o in OIDS[:noids]]
    if op == "get":
        return world.run(c.get(oids[0]))
    if op == "multiget":
        return world.run(c.multiget(oids))
    if op == "getnext":
        return world.run(c.getnext(oids[0]))
    if op == "multigetnext":
        return world.run(c.multigetnext(oids))
    if op == "set":
        return world.run(c.set(oids[0], Integer(5)))
    if op == "multiset":
        return world.run(c.multiset({o: Integer(i) for i, o in enumerate(oids)}))
    if op == "bulkget":
        return world.run(c.bulkget(oids[:1], oids[1:] or oids[:1], max_list_size=2))
    if op == "walk":
        return world.collect(c.walk(C.poid(C.ROOTS["A"])))
    if op == "walk-warn":
        return world.collect(c.walk(C.poid(C.ROOTS["A"]), errors="warn"))
    if op == "multiwalk-warn":
        return world.collect(c.multiwalk([C.poid(C.ROOTS["A"]), C.poid(C.ROOTS["C"])], errors="warn"))
    if op == "bulkwalk":
        return world.collect(c.bulkwalk([C.poid(C.ROOTS["A"])], bulk_size=2))
    if op == "table":
        return world.run(c.table(C.poid(C.ROOTS["A"])))
    raise ValueError(op)


SINGLE = ("get", "getnext", "set", "walk", "bulkwalk", "table", "walk-warn", "multiwalk-warn")


def make_harness(kind, op, box, traced=False, which=1):
    """
    box "status": every status, index in 0..1, the response echoes the request's bindings (n = k)
    box "index" : status in {2, 5, 19}, every index -2..5, every n in 0..3
    """
    def h(status_sel, index, nresp, noids):
        from puresnmp.exc import ErrorResponse
        from x690.types import ObjectIdentifier
        problem = None
        with (_Null() if traced else window()):
            k = 1 if op in SINGLE else choose(noids, 1, 3)
            if box == "status":
                sel = choose(status_sel, STATUS_LO, STATUS_HI)
                idx = choose(index, 0, 1)
                n = -1
            else:
                sel = (2, 5, 19)[choose(status_sel, 0, 2)]
                idx = choose(index, -2, 5)
                n = choose(nresp, 0, 3)
            status = FAR.get(sel, sel)
            world = C.World(kind, Database(UNIVERSE))
            resp_vbs = []

            seen_responses = [0]

            def tamper(req, resp):
                seen_responses[0] += 1
                if seen_responses[0] != which:
                    return resp   # the error is scripted for response number `which` only
                # error responses echo the request's bindings; the agent may send fewer/more (n entries)
                vbs = [(o, ("null",)) for o, _ in req.varbinds]
                if n >= 0:
                    while len(vbs) < n:
                        vbs.append((C.O("9.%d" % len(vbs)), ("null",)))
                    vbs = vbs[:n]
                resp_vbs[:] = vbs
                return Pdu(ber.P_RESPONSE, resp.request_id, status, idx, vbs)

            if status != 0:
                world.agent.tamper = tamper
            outcome = None
            try:
                try:
                    result = run_op(world, op, k)
                    outcome = ("returned", result)
                except ErrorResponse as exc:
                    outcome = ("error", exc)
                except Exception as exc:  # noqa: BLE001
                    fid = world.known_exception(exc)
                    if fid and known(fid):
                        outcome = ("skip", None)
                    else:
                        outcome = ("other", exc)
            finally:
                world.close()
            if outcome[0] == "skip":
                return True
            if which > 1 and seen_responses[0] < which:
                pass   # the operation ended before the scripted response (nothing to judge)
            elif which > 1 and status == 2 and outcome[0] == "returned":
                pass   # noSuchName on a follow-up request is the (v1) end-of-walk signal: ending normally is documented
            elif status == 0:
                if outcome[0] != "returned":
                    problem = "status 0 but outcome %r" % (outcome,)
            elif outcome[0] == "returned":
                problem = "status %d but the call returned %r" % (status, outcome[1])
            elif outcome[0] == "other":
                problem = "status %d index %d n %d: %s: %s" % (status, idx, n, type(outcome[1]).__name__, outcome[1])
            else:
                exc = outcome[1]
                want_cls = TABLE.get(status, "ErrorResponse")
                want_oid = resp_vbs[idx - 1][0] if 1 <= idx <= len(resp_vbs) else ()
                got_oid = exc.offending_oid
                if type(exc).__name__ != want_cls:
                    problem = "status %d raised %s, documented %s" % (status, type(exc).__name__, want_cls)
                elif exc.error_status != status:
                    problem = "exception carries status %r, agent sent %d" % (exc.error_status, status)
                elif type(got_oid) is not ObjectIdentifier or tuple(got_oid.nodes) != tuple(want_oid):
                    problem = "offending oid %r, expected %r (index %d of %d)" % (got_oid, want_oid, idx, len(resp_vbs))
        reached()
        if problem:
            h.last_problem = problem
            return False
        return True

    return h


def h_decode_traced(status, index, rid):
    """Mode T: PDU.decode_raw + x690 with the three integer fields symbolic through the BER decoder."""
    import x690
    from puresnmp.exc import ErrorResponse
    from puresnmp.pdu import GetResponse
    vbs = [(C.U14[2], ("int", 1)), (C.U14[3], ("str", b"x"))]
    raw = ber.enc_pdu(ber.P_RESPONSE, rid, status, index, vbs)
    obj, _ = x690.decode(raw)
    if type(obj) is not GetResponse:
        return False
    reached()
    try:
        content = obj.value
    except ErrorResponse as exc:
        want = vbs[index - 1][0] if 1 <= index <= 2 else ()
        return (status != 0 and type(exc).__name__ == TABLE.get(status, "ErrorResponse")
                and exc.error_status == status and tuple(exc.offending_oid.nodes) == tuple(want))
    return (status == 0 and content.request_id == rid and content.error_status == 0
            and content.error_index == index and len(content.varbinds) == 2)


def jobs(tier):
    quick = tier == "quick"
    out = []
    funcs = ["puresnmp.pdu:PDU.decode_raw", "puresnmp.exc:ErrorResponse.construct", "puresnmp_plugins.mpm.v1:V1MPM.decode",
             "puresnmp_plugins.security.usm:validate_usm_message", "puresnmp.api.raw:Client._send"]
    kinds = ["v1", "v2c", "noauth", "md5", "sha1priv"]
    for kind in kinds:
        for op in OPS:
            if kind == "v1" and op in ("bulkget", "bulkwalk"):
                continue
            if quick and kind in ("noauth", "md5", "sha1priv") and op not in ("get", "multiget", "set", "walk", "bulkget"):
                continue
            if quick and kind == "v1" and op not in ("get", "multigetnext", "walk", "multiset"):
                continue
            if quick and kind == "noauth" and op not in ("get", "walk"):
                continue
            out.append(Job(f"{kind}-{op}-allstatus", make_harness(kind, op, "status"),
                           [Arg("status_sel", STATUS_LO, STATUS_HI), Arg("index", 0, 1), Arg("nresp", 0, 0), Arg("noids", 1, 3)],
                           timeout=400 if quick else 1200, mode="E/concolic-window", functions=funcs, sample_every=7))
            if op == "walk" and kind in ("v1", "v2c", "md5"):
                for wop in ("walk-warn", "multiwalk-warn"):
                    for which in (1, 2):
                        out.append(Job(f"{kind}-{wop}-allstatus-response{which}", make_harness(kind, wop, "status", which=which),
                                       [Arg("status_sel", STATUS_LO, STATUS_HI), Arg("index", 0, 1), Arg("nresp", 0, 0), Arg("noids", 1, 3)],
                                       timeout=400 if quick else 1200, mode="E/concolic-window", functions=funcs, sample_every=7))
            if op in ("walk", "bulkwalk", "table"):
                out.append(Job(f"{kind}-{op}-allstatus-2nd-response", make_harness(kind, op, "status", which=2),
                               [Arg("status_sel", STATUS_LO, STATUS_HI), Arg("index", 0, 1), Arg("nresp", 0, 0), Arg("noids", 1, 3)],
                               timeout=400 if quick else 1200, mode="E/concolic-window", functions=funcs, sample_every=7))
            out.append(Job(f"{kind}-{op}-allindex", make_harness(kind, op, "index"),
                           [Arg("status_sel", 0, 2), Arg("index", -2, 5), Arg("nresp", 0, 3), Arg("noids", 1, 3)],
                           timeout=400 if quick else 1200, mode="E/concolic-window", functions=funcs, sample_every=7))
    return out
