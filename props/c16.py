"""C16 Table fetches: one row per index, every cell exactly once, both variants agree."""
from engine.core import Arg, Job, choose, decide, known, reached, window
from props import common as C
from ref import ber
from ref.agent import Database

META = {
    "explanation": (
        "Mode E: one presence bit per table cell (sparse columns, multi-component indexes) plus neighbouring "
        "objects before and after the table, and the bulk size, are solver variables; CrossHair/z3 enumerate every "
        "table within the bound. On each path Client.table (addressed by the entry OID), Client.bulktable (by the "
        "table OID) and their PyWrapper counterparts run against the reference agent; the rows are compared with "
        "the rows derived from the database, and the variants with each other."),
    "bounds": ["columns {1, 2, 5} x indexes {1, 11, 1.1} (quick; 11 and 1.1 differ only by the separator) / columns {1, 2, 5} x indexes {1, 2, 10, 1.2.3} and columns {1, 2} x indexes {1, 1.23, 12.3} (thorough)",
               "neighbour objects before and after the table, one of them (7.30.x after table 7.3) sharing the table's leading digits", "bulk size 1..3 (thorough 1..4)"],
    "outside": ["larger tables", "more than one entry node below the table OID"],
    "stubs": ["sender = trampoline", "get_request_id pinned"],
    "assumptions": ["table() is addressed by the entry OID and bulktable() by the table OID, as their documentation and tests prescribe"],
}

T = C.O("7.3")
ENTRY = T + (1,)


def make_harness(cols, idxs, maxbulk):
    idxs = sorted(idxs)
    cells = [(c, i) for c in cols for i in idxs]
    objects = [C.O("7.2.0")] + [ENTRY + (c,) + i for c, i in cells] + [C.O("7.4.1.0"), C.O("7.30.1.1.1")]
    universe = [(o, C.value_for(k)) for k, o in enumerate(objects)]
    assert [o for o, _ in universe] == sorted(o for o, _ in universe)

    def h(*args):
        from puresnmp.api.pythonic import PyWrapper
        bits, bulk_sym = args[:len(objects)], args[len(objects)]
        memo = {}

        def present(i):
            if i not in memo:
                memo[i] = decide(bits[i])
            return memo[i]

        problem = None
        with window():
            bulk = choose(bulk_sym, 1, maxbulk)
            db = Database(universe, present)
            world = C.World("v2c", db)
            try:
                try:
                    t1 = world.run(world.client.table(C.poid(ENTRY)), budget=200)
                    t2 = world.run(world.client.bulktable(C.poid(T), bulk_size=bulk), budget=200)
                    py = PyWrapper(world.client)
                    t3 = world.run(py.table(ber.oid_str(ENTRY)), budget=200)
                    t4 = world.run(py.bulktable(ber.oid_str(T), bulk_size=bulk), budget=200)
                except Exception as exc:  # noqa: BLE001
                    problem = "%s: %s" % (type(exc).__name__, exc)
            finally:
                world.close()
            if problem is None:
                want = {}
                for k, (c, i) in enumerate(cells):
                    if present(k + 1):
                        row = want.setdefault(ber.oid_str(i), {"0": ber.oid_str(i)})
                        row[str(c)] = universe[k + 1][1]
                want_rows = sorted(want.values(), key=lambda r: r["0"])

                def norm(rows, pythonic):
                    out = []
                    for r in rows:
                        d = {}
                        for k2, v in r.items():
                            if k2 == "0":
                                d[k2] = v
                            elif pythonic:
                                d[k2] = v
                            else:
                                d[k2] = C.to_ref(v)
                        out.append(d)
                    return sorted(out, key=lambda r: str(r.get("0")))

                want_py = [{k2: (v if k2 == "0" else C.from_ref(v).pythonize()) for k2, v in r.items()} for r in want_rows]
                for name, got, ref in (("table", norm(t1, False), want_rows), ("bulktable", norm(t2, False), want_rows),
                                       ("PyWrapper.table", norm(t3, True), want_py), ("PyWrapper.bulktable", norm(t4, True), want_py)):
                    if got != ref:
                        problem = "%s rows %r, database rows %r" % (name, got, ref)
                        break
        reached()
        if problem:
            h.last_problem = problem
            return False
        return True

    return h, len(objects)


def jobs(tier):
    quick = tier == "quick"
    funcs = ["puresnmp.api.raw:Client.table", "puresnmp.api.raw:Client.bulktable", "puresnmp.util:tablify",
             "puresnmp.api.pythonic:PyWrapper.table", "puresnmp.api.pythonic:PyWrapper.bulktable", "puresnmp.api.raw:Client.multiwalk"]
    out = []
    if quick:
        shapes = [((1, 2, 5), ((1,), (11,), (1, 1)), 3)]
    else:
        shapes = [((1, 2, 5), ((1,), (2,), (10,), (1, 2, 3)), 4), ((1, 2), ((1,), (1, 23), (12, 3)), 4)]
    for cols, idxs, maxbulk in shapes:
        h, n = make_harness(cols, idxs, maxbulk)
        # partition by the two neighbour bits and the first cell
        for part in range(8):
            a = [Arg(f"p{i}", 0, 1) for i in range(n)] + [Arg("bulk", 1, maxbulk)]
            a[0] = Arg("p0", part % 2, part % 2)
            a[n - 2] = Arg(f"p{n-2}", (part // 2) % 2, (part // 2) % 2)
            a[1] = Arg("p1", part // 4, part // 4)
            out.append(Job(f"table-{len(cols)}x{len(idxs)}-part{part}", h, a, timeout=600 if quick else 1800, mode="E/concolic-window",
                           functions=funcs, sample_every=17))
    return out
