"""C10 USM interop: requests verify under RFC 3414, authentic responses are accepted."""
from engine.core import Arg, Job, choose, known, reached, window
from props import common as C
from ref import ber, tramp
from ref import usm as rusm
from ref.agent import Agent, Database

META = {
    "explanation": (
        "Mode E with the real hashes: password length, engine-id length, operation and response padding are "
        "solver variables (concretised by forking, CrossHair confirms exhaustion of the stated ranges). Request "
        "side: every datagram the real client emits (V3MPM.encode, apply_encryption, apply_authentication, "
        "password_to_key) is handed to an independent RFC 3412/3414 engine (ref/usm.py) configured with the same "
        "user, which must accept it: msgFlags = the credentials' level plus reportable for confirmed-class PDUs, "
        "security parameters = discovered engine id / boots / time / user, 12-octet digest verifying over the octets "
        "as sent. Response side: the engine answers at the same level in minimal BER with a payload padded so that "
        "message, scoped PDU and PDU cross every length in 100..300; the client must accept and return the value. "
        "Lemma: the buffer password_to_key hands to its hash is exactly the RFC 3414 A.2 expansion (recording hash "
        "object passed as the documented hash_implementation parameter)."),
    "bounds": ["password lengths 1..300 (quick: 1..64, 120..135, 250..260)", "engine id lengths 5..32 in four shapes (text, a long run of zero octets, octets that look like BER headers, 0xFF octets)", "context engine id: default / explicit and different from the agent's", "operations get, getnext, bulkget, set, walk",
               "users MD5 / SHA-1, with and without privacy (harness cipher)", "response padding 0..260 octets (every total / scoped PDU / PDU length from ~100 to ~380)"],
    "outside": ["passwords longer than 300 octets", "privacy protocols other than the harness stream cipher (DES/AES plug-ins are not installed)"],
    "stubs": ["sender = trampoline", "get_request_id pinned", "privacy plug-in = harness stream cipher", "hash_implementation = recording wrapper around hashlib (lemma job only)"],
    "assumptions": ["ref/usm.py implements RFC 3414 (checked against the A.3 vectors per run)"],
}

UNIVERSE = [(o, C.value_for(i)) for i, o in enumerate(C.U14)]
LQUICK = list(range(1, 65)) + list(range(120, 136)) + list(range(250, 261))
LFULL = list(range(1, 301))
OPS = ["get", "getnext", "bulkget", "set", "walk"]
CONFIRMED = {ber.P_GET, ber.P_GETNEXT, ber.P_BULK, ber.P_SET, ber.P_INFORM}


def build(kind, auth_pw, priv_pw, engine_id, clock=1000, context_engine_id=b""):
    import warnings
    warnings.simplefilter("ignore")
    from puresnmp.api.raw import Client
    from puresnmp.credentials import V3, Auth, Priv
    proto = "md5" if kind.startswith("md5") else "sha1"
    with_priv = kind.endswith("priv")
    cipher = rusm.StreamCipher()
    C.install_priv_plugin(cipher)
    user = rusm.User(b"interop", proto, auth_pw, priv_pw if with_priv else None, cipher)
    agent = Agent(Database(UNIVERSE))
    engine = rusm.Engine(agent, engine_id, [user], boots=3, clock=lambda: clock)
    creds = V3("interop", Auth(auth_pw, proto), Priv(priv_pw, C.PRIV_METHOD) if with_priv else None)
    client = Client("192.0.2.1", creds, sender=tramp.sender, engine_id=context_engine_id)
    return client, engine, agent, user


def run_op(client, op, answer):
    from x690.types import Integer
    oid = C.poid(C.U14[2])
    if op == "get":
        return tramp.drive(client.get(oid), answer)
    if op == "getnext":
        return tramp.drive(client.getnext(oid), answer)
    if op == "bulkget":
        return tramp.drive(client.bulkget([], [oid], max_list_size=2), answer)
    if op == "set":
        return tramp.drive(client.set(oid, Integer(9)), answer)
    if op == "walk":
        return tramp.drain(client.walk(C.poid(C.ROOTS["A"])), answer, budget=30)
    raise ValueError(op)


def make_request_harness(kind, op, lset, fixed_engine_len=None, fixed_pw_len=None):
    level = 3 if kind.endswith("priv") else 1

    def h(l_sel, e_len, ctx_sel=0, shape_sel=0):
        problem = None
        with window():
            L = lset[choose(l_sel, 0, len(lset) - 1)] if fixed_pw_len is None else fixed_pw_len
            E = choose(e_len, 5, 32) if fixed_engine_len is None else fixed_engine_len
            auth_pw = bytes((33 + (i * 7) % 90) for i in range(L))
            priv_pw = bytes((40 + (i * 11) % 80) for i in range(max(L, 1)))[::-1]
            shape = choose(shape_sel, 0, 3)
            if shape == 0:
                engine_id = (b"\x80\x00\x1f\x88\x04" + bytes(range(65, 65 + 27)))[:E]
            elif shape == 1:    # a long run of zero octets (legal; 12 zero octets also look like an empty digest field)
                engine_id = (b"\x80\x00\x1f\x88\x05" + b"\x00" * 26 + b"\x01")[:E - 1] + b"\x01"
            elif shape == 2:    # octets that look like BER headers
                engine_id = (b"\x80\x00\x1f\x88\x05" + b"\x04\x0c\x30\x82\x02\x01\x00\x04\x00" * 4)[:E]
            else:
                engine_id = (b"\x80\x00\x1f\x88\x05" + b"\xff" * 27)[:E]
            rids = C.RequestIds().install()
            try:
                # 0: default context engine id; 1: an explicit one that differs from the agent's engine id
                ctx_eid = b"\x80\x00\x1f\x88\x04other-context" if choose(ctx_sel, 0, 1) else b""
                client, engine, agent, user = build(kind, auth_pw, priv_pw, engine_id, context_engine_id=ctx_eid)
                flags = set()

                def answer(req):
                    resp = engine.handle(req.data)
                    if rusm.len127_spots(resp):
                        flags.add("len127")
                    return resp

                try:
                    run_op(client, op, answer)
                    outcome = None
                except Exception as exc:  # noqa: BLE001
                    outcome = exc
            finally:
                rids.remove()
            # every non-discovery datagram must have been accepted by the reference engine
            verdicts = [v for v in engine.log if v.reason != "discovery"]
            if not verdicts:
                problem = "no request reached the engine (%r)" % (outcome,)
            for v in verdicts:
                if not v.accepted:
                    problem = "reference engine refused the request: %s" % v.reason
                    break
                if v.level != level:
                    problem = "msgFlags state level %d, credentials are level %d" % (v.level, level)
                    break
                want_reportable = v.pdu.tag in CONFIRMED
                if v.reportable != want_reportable:
                    problem = "reportable flag %r on PDU %#x" % (v.reportable, v.pdu.tag)
                    break
                if (v.msg.usm.engine_id, v.msg.usm.boots, v.msg.usm.time, v.msg.usm.user) != (engine_id, 3, 1000, b"interop"):
                    problem = "security parameters %r" % (v.msg.usm[:4],)
                    break
                if len(v.msg.usm.auth) != 12:
                    problem = "digest of %d octets" % len(v.msg.usm.auth)
                    break
                scoped_eid = v.msg.scoped.ctx_engine_id if v.msg.scoped is not None else None
                if scoped_eid is not None and scoped_eid != (ctx_eid or engine_id):
                    problem = "context engine id %r, caller gave %r" % (scoped_eid, ctx_eid)
                    break
            if problem is None and outcome is not None:
                if type(outcome).__name__ == "AuthenticationError" and "len127" in flags and known("F08"):
                    pass
                else:
                    problem = "authentic response refused: %s: %s" % (type(outcome).__name__, outcome)
        reached()
        if problem:
            h.last_problem = problem
            return False
        return True

    return h


def make_response_harness(kind):
    def h(pad):
        problem = None
        with window():
            n = choose(pad, 0, 260)
            rids = C.RequestIds().install()
            try:
                client, engine, agent, user = build(kind, b"authpassword", b"privpassword", C.ENGINE_ID)
                value = ("str", bytes((65 + i % 26) for i in range(n)))
                agent.db.overrides[C.U14[2]] = value
                spots = []

                def answer(req):
                    resp = engine.handle(req.data)
                    spots.extend(rusm.len127_spots(resp))
                    return resp

                try:
                    got = tramp.drive(client.get(C.poid(C.U14[2])), answer)
                    if C.to_ref(got) != value:
                        problem = "returned %r" % (C.to_ref(got),)
                except Exception as exc:  # noqa: BLE001
                    if type(exc).__name__ == "AuthenticationError" and spots and known("F08"):
                        pass
                    else:
                        problem = "authentic response (pad %d) refused: %s: %s" % (n, type(exc).__name__, exc)
            finally:
                rids.remove()
        reached()
        if problem:
            h.last_problem = problem
            return False
        return True

    return h


def make_expansion_lemma(proto):
    def h(l_sel):
        import hashlib
        from puresnmp.util import password_to_key
        with window():
            L = choose(l_sel, 1, 300)
            password = bytes((33 + (i * 7) % 90) for i in range(L))
            seen = []
            real = getattr(hashlib, proto)

            class Recorder:
                def __init__(self, data=b""):
                    seen.append(bytes(data))
                    self._h = real(data)

                def digest(self):
                    return self._h.digest()

            pad = 16 if proto == "md5" else 20
            # (a fresh factory per call: the derived function is memoised by password/engine id)
            key = password_to_key(Recorder, pad)(password, C.ENGINE_ID)
            expanded = (password * (1048576 // L + 1))[:1048576]
            ku = real(expanded).digest()
            ok = (len(seen) == 2 and len(seen[0]) == 1048576 and seen[0] == expanded
                  and seen[1] == ku + C.ENGINE_ID + ku and key == real(ku + C.ENGINE_ID + ku).digest()
                  and key == rusm.localised_key(proto, password, C.ENGINE_ID))
        reached()
        return ok

    return h


def jobs(tier):
    quick = tier == "quick"
    lset = LQUICK if quick else LFULL
    out = []
    rf = ["puresnmp_plugins.mpm.v3:V3MPM.encode", "puresnmp_plugins.mpm.v3:is_confirmed",
          "puresnmp_plugins.security.usm:apply_encryption", "puresnmp_plugins.security.usm:apply_authentication",
          "puresnmp_plugins.security.usm:reset_digest", "puresnmp_plugins.auth.hashbase:get_message_digest",
          "puresnmp.util:password_to_key", "puresnmp.util:localise_key", "puresnmp_plugins.security.usm:verify_authentication"]
    for kind in ("md5", "sha1", "md5priv", "sha1priv"):
        for op in OPS:
            if quick and (kind, op) not in (("md5", "get"), ("md5", "set"), ("sha1", "bulkget"), ("sha1", "walk"),
                                            ("md5priv", "getnext"), ("md5priv", "bulkget"), ("sha1priv", "set"), ("sha1priv", "get")):
                continue
            out.append(Job(f"request-{kind}-{op}-passwords", make_request_harness(kind, op, lset, fixed_engine_len=12),
                           [Arg("l_sel", 0, len(lset) - 1), Arg("e_len", 12, 12), Arg("ctx_sel", 0, 0), Arg("shape", 0, 0)], timeout=500 if quick else 1500,
                           mode="E/concolic-window", functions=rf, sample_every=7))
            out.append(Job(f"request-{kind}-{op}-engineids", make_request_harness(kind, op, lset, fixed_pw_len=8),
                           [Arg("l_sel", 0, 0), Arg("e_len", 5, 32), Arg("ctx_sel", 0, 1), Arg("shape", 0, 3)], timeout=500 if quick else 1500,
                           mode="E/concolic-window", functions=rf, sample_every=3))
        out.append(Job(f"response-{kind}-lengths", make_response_harness(kind), [Arg("pad", 0, 260)], timeout=500 if quick else 1500,
                       mode="E/concolic-window", functions=rf, sample_every=5))
    for proto in ("md5", "sha1"):
        out.append(Job(f"lemma-password-expansion-{proto}", make_expansion_lemma(proto), [Arg("l_sel", 1, 300)], timeout=600,
                       mode="E/concolic-window", functions=["puresnmp.util:password_to_key"], sample_every=7))
    return out
