"""C20 No datagram, however malformed, can hang the client or exhaust memory."""
from engine.core import Arg, Job, choose, known, reached, window
from props import common as C
from props.c01 import _Null
from ref import ber, tramp
from ref import usm as rusm
from ref.agent import Database

META = {
    "explanation": (
        "Termination and bounded work as an assertion: x690's decode (every name it is bound to in x690 and "
        "puresnmp) is wrapped by a counter; an operation that receives L octets in total may make at most 4*L + 64 "
        "decode calls (an absolute, linear bound -- the authentic exchange must meet it too), otherwise a budget "
        "exception ends the run -- a parse that loops or "
        "re-scans without progress (which also grows its element list once per call) becomes a finite "
        "counter-example. The mutation -- the position and the new value of one octet of an authentic message, or a "
        "truncation point, or the nesting depth of a constructed value -- is chosen by the solver and enumerated "
        "exhaustively; base messages: v1 / v2c responses carrying every value type, a v2c notification, the SNMPv3 "
        "discovery Report and SNMPv3 responses at each level, with the real HMAC (mutations die at authentication) "
        "and with an ideal MAC forced to 'authentic' (post-authentication parsers). After every datagram a valid "
        "exchange on the same client must succeed. (Fully symbolic datagrams under the tracer were tried and "
        "replaced by solver-enumerated short datagrams: x690 formats its error messages from the symbolic values, "
        "which realises them anyway and produced engine artefacts.)"),
    "bounds": ["one substituted octet: quick = every TLV header position (tag and length octets) x 41 header values (all classes, the length forms 0x80..0x85, 0xFE, 0xFF) and every 4th content position x {0x00,0x30,0x80,0x81,0x84,0xFF}; thorough = every position x all 256 values for the v2c response, the discovery reply, the ideal-MAC authNoPriv response and the notification; every header position x all 256 values + every 2nd content position x 6 values for the other entry points",
               "every truncation point", "nesting depth 1..60 of constructed values", "every 1-octet datagram; 2-octet datagrams: 8 first octets x all second octets (thorough: all 65536 into the v2c response path)",
               "entry points: response (v1, v2c, v3 noAuth/auth/authPriv), discovery reply, trap listener; plus a v2c response with 160 bindings (super-linear work per binding shows there)"],
    "outside": ["datagrams longer than the base messages (60-200 octets)", "two or more simultaneous corruptions beyond the fully symbolic short datagrams",
                "wall-clock time as such (decode calls are the proxy)"],
    "stubs": ["sender = scripted", "x690.decode call budget", "ideal-MAC jobs: usm.auth.create -> always authentic", "trap entry: puresnmp.api.raw.listen stub (as C19)"],
    "assumptions": ["every element of a BER stream has at least two octets, so a terminating parse needs at most L/2 decode calls per nesting pass"],
}

UNIVERSE = [(o, C.value_for(i)) for i, o in enumerate(C.U14)]
ALLTYPES = [(C.O("1.%d.0" % (i + 1)), v) for i, v in enumerate(
    [("int", -70000), ("str", b"hello world"), ("oid", (1, 3, 6, 1, 4, 1, 8072, 3, 2, 10)), ("ip", bytes([192, 0, 2, 1])), ("c32", 4000000000),
     ("g32", 12), ("tt", 123456789), ("opaque", b"\x9f\x78\x04"), ("c64", 2 ** 63), ("null",), ("nsi",), ("nso",), ("eomv",)])]
CONTENT_VALUES = [0x00, 0x30, 0x80, 0x81, 0x84, 0xFF]
HEADER_VALUES = sorted(set(list(range(0, 9)) + [0x10, 0x24, 0x30, 0x31, 0x3F] + list(range(0x40, 0x47)) + [0x7E, 0x7F, 0x80, 0x81, 0x82, 0x83, 0x84,
                                                                                             0x85, 0x88, 0xA0, 0xA2, 0xA7, 0xA8, 0xBF, 0xC0, 0xFE, 0xFF]))
FIRST_OCTETS = [0x30, 0x02, 0x04, 0xA2, 0xA7, 0xA8, 0x00, 0xFF]
ENTRIES = ["v1", "v2c", "noauth", "md5", "sha1priv", "md5-idealmac", "sha1priv-idealmac", "discovery", "trap", "v2c-wide"]
WIDE = [(C.O("8.%d.0" % (i + 1)), ("int", i)) for i in range(160)]


def header_positions(data):
    """Absolute positions of all identifier and length octets (independent TLV walk)."""
    out = []

    def walk(pos, end):
        while pos < end:
            try:
                tag, cs, ce = ber.read_tlv(data, pos, end)
            except ber.BerError:
                return
            out.extend(range(pos, cs))
            if tag % 64 >= 32 or tag == ber.T_STR and ce - cs > 8:   # constructed (or an OCTET STRING that may wrap BER)
                sub = []
                try:
                    if tag % 64 >= 32 or (ce > cs and data[cs] == 0x30):
                        walk(cs, ce)
                except ber.BerError:
                    pass
            pos = ce

    walk(0, len(data))
    return sorted(set(out))


class Scenario:
    """Builds the authentic exchange for an entry point and replays it with one datagram replaced."""

    def __init__(self, entry):
        self.entry = entry
        self.kind = entry.split("-")[0] if entry not in ("discovery", "trap") else ("md5" if entry == "discovery" else "v2c")
        self.ideal = entry.endswith("idealmac")
        self.wide = entry.endswith("wide")

    def oids(self):
        if self.wide:
            return [o for o, _ in WIDE]      # one response carrying 160 bindings
        return [o for o, _ in ALLTYPES[:4]] if self.kind != "v1" else [o for o, _ in ALLTYPES[:3]]

    def world(self):
        db = Database(WIDE if self.wide else (ALLTYPES if self.kind != "v1" else ALLTYPES[:9]))
        return C.World(self.kind, db)

    def run(self, world, answer):
        got = tramp.drive(world.client.multiget([C.poid(o) for o in self.oids()]), answer, budget=20)
        return [C.to_ref(v) for v in got]

    def target_index(self):
        if self.entry == "discovery":
            return 0
        return 1 if self.kind not in ("v1", "v2c") else 0


def process(entry, mutate):
    """
    Returns (problem, detail).  *mutate(base_bytes)* gives the datagram to deliver in place of the authentic one.
    """
    if entry == "trap":
        return process_trap(mutate)
    sc = Scenario(entry)
    import puresnmp_plugins.security.usm as usm
    from engine.core import seam
    saved_auth = seam(seam(usm, "auth"), "create")
    if sc.ideal:
        class Mac:
            @staticmethod
            def authenticate_incoming_message(key, data, digest, engine_id):
                return True

            @staticmethod
            def authenticate_outgoing_message(key, data, engine_id):
                return b"\x11" * 12
        usm.auth.create = lambda method: Mac
        saved_verify = rusm.verify
        rusm.verify = lambda *a, **kw: True
    try:
        honest = sc.world()
        try:
            with C.DecodeBudget(10 ** 6) as b0:
                expected = sc.run(honest, honest.answer)
            base_calls = b0.calls
            base = honest.exchanges[sc.target_index()][1]
            received = sum(len(resp) for _req, resp in honest.exchanges)
            if base_calls > 4 * received + 64:
                return "the authentic exchange itself (%d octets received) took %d decode calls" % (received, base_calls), None
        finally:
            honest.close()
        bad = mutate(base)
        world = sc.world()
        count = [0]

        def answer(req):
            resp = world.answer(req)
            count[0] += 1
            if count[0] == sc.target_index() + 1:
                return bad
            return resp

        try:
            # absolute bound: linear in the octets received during the operation (not relative to the authentic run)
            limit = 4 * (received + len(bad)) + 64
            with C.DecodeBudget(limit) as budget:
                try:
                    got = sc.run(world, answer)
                    outcome = "returned"
                except C.BudgetExceeded:
                    outcome = "budget"
                except RecursionError:
                    outcome = "recursion"
                except Exception as exc:  # noqa: BLE001
                    outcome = "exception"
            if budget.calls > limit or outcome == "budget":
                if budget.indefinite and known("F14"):
                    return None, "F14"
                return "processing %d octets (%d received in total) took more than %d decode calls (authentic exchange: %d)" % (
                    len(bad), received + len(bad), limit, base_calls), None
            # the client must remain usable
            try:
                with C.DecodeBudget(4 * received + 64):
                    again = sc.run(world, world.answer)
            except Exception as exc:  # noqa: BLE001
                fid = world.known_exception(exc)
                if fid and known(fid):
                    return None, fid
                return "after the malformed datagram a valid exchange fails: %s: %s" % (type(exc).__name__, exc), None
            if again != expected:
                return "after the malformed datagram a valid exchange returns %r" % (again,), None
        finally:
            world.close()
    finally:
        usm.auth.create = saved_auth
        if sc.ideal:
            rusm.verify = saved_verify
    return None, outcome


def process_trap(mutate):
    import asyncio
    import puresnmp.api.raw as raw
    from puresnmp.credentials import V2C
    from puresnmp.transport import SNMPTrapReceiverProtocol
    from props.c19 import notification
    base, vbs = notification(3, 1)
    bad = mutate(base)
    received, captured = [], []

    async def callback(trap):
        received.append(trap)

    async def fake_listen(bind_address, port, cb, loop=None):
        captured.append(cb)

    loop = asyncio.new_event_loop()
    loop.set_exception_handler(lambda lp, ctx: None)
    from engine.core import seam
    saved = seam(raw, "listen")
    raw.listen = fake_listen
    try:
        asyncio.set_event_loop(loop)
        raw.register_trap_callback(callback, "127.0.0.1", 16200, V2C("public"), loop)
        proto = SNMPTrapReceiverProtocol(captured[0])
        limit = 4 * len(bad) + 16 + 40
        with C.DecodeBudget(limit) as budget:
            loop.call_soon(proto.datagram_received, bad, ("192.0.2.9", 5000))
            loop.run_until_complete(asyncio.sleep(0))
            loop.run_until_complete(asyncio.sleep(0))
        if budget.calls > limit:
            if budget.indefinite and known("F14"):
                return None, "F14"
            return "trap listener: %d octets took more than %d decode calls" % (len(bad), limit), None
        n0 = len(received)
        loop.call_soon(proto.datagram_received, base, ("192.0.2.9", 5000))
        loop.run_until_complete(asyncio.sleep(0))
        loop.run_until_complete(asyncio.sleep(0))
        if len(received) != n0 + 1:
            return "after the malformed datagram a valid notification is not delivered", None
    finally:
        raw.listen = saved
        asyncio.set_event_loop(None)
        loop.close()
    return None, "ok"


def finish(h, problem):
    reached()
    if problem:
        h.last_problem = problem
        return False
    return True


def make_substitute(entry, positions, values):
    def h(p_sel, v_sel):
        with window():
            pi = choose(p_sel, 0, len(positions) - 1)
            v = values[choose(v_sel, 0, len(values) - 1)]

            def mutate(base):
                p = positions[pi]
                if p >= len(base):
                    return base
                return base[:p] + bytes([v]) + base[p + 1:]

            problem, _ = process(entry, mutate)
        return finish(h, problem)
    return h


def make_truncate(entry):
    def h(cut):
        with window():
            c = choose(cut, 0, 400)
            problem, _ = process(entry, lambda base: base[:min(c, len(base))])
        return finish(h, problem)
    return h


def make_nested(entry):
    def h(depth, inner):
        with window():
            d = choose(depth, 1, 60)
            k = choose(inner, 0, 2)
            body = [b"", b"\x05\x00", b"\x30\x80"][k]
            for _ in range(d):
                body = ber.tlv(ber.T_SEQ, body)
            problem, _ = process(entry, lambda base: body)
        return finish(h, problem)
    return h


def make_short(entry, n, firsts=None):
    """Every datagram of n octets (the octets are solver variables, enumerated exhaustively)."""
    def h(*octets):
        with window():
            vals = []
            for i in range(n):
                if i == 0 and firsts is not None:
                    vals.append(firsts[choose(octets[0], 0, len(firsts) - 1)])
                else:
                    vals.append(choose(octets[i], 0, 255))
            data = bytes(vals)
            problem, _ = process(entry, lambda base: data)
        return finish(h, problem)
    return h


def base_length(entry):
    """The authentic datagram that gets mutated (only used to lay out the jobs; must not depend on any budget)."""
    if entry == "trap":
        from props.c19 import notification
        return notification(3, 1)[0]
    sc = Scenario(entry)
    honest = sc.world()
    try:
        try:
            sc.run(honest, honest.answer)
        except Exception:  # noqa: BLE001  (the harness reports this at run time; the layout only needs the bytes)
            pass
        if len(honest.exchanges) > sc.target_index():
            return honest.exchanges[sc.target_index()][1]
        return b"\x30\x00" * 40
    finally:
        honest.close()


def jobs(tier):
    quick = tier == "quick"
    out = []
    funcs = ["puresnmp_plugins.mpm.v1:V1MPM.decode", "puresnmp_plugins.mpm.v2c:V2CMPM.decode", "puresnmp_plugins.mpm.v3:V3MPM.decode",
             "puresnmp.adt:Message.decode", "puresnmp_plugins.security.usm:USMSecurityParameters.decode",
             "puresnmp_plugins.security.usm:UserSecurityModel.process_incoming_message", "puresnmp_plugins.security.usm:reset_digest",
             "puresnmp.pdu:PDU.decode_raw", "puresnmp_plugins.security.usm:UserSecurityModel.send_discovery_message",
             "puresnmp.api.raw:register_trap_callback", "x690.types:decode", "x690.types:Sequence.decode_raw", "x690.util:get_value_slice"]
    allvals = list(range(256))
    for entry in ENTRIES:
        base = base_length(entry)
        hdr = header_positions(base)
        if entry == "v2c-wide":
            hdr = hdr[:16]     # the wide response: message / PDU / list headers and the first bindings only
        if quick or entry == "v2c-wide":
            if entry in ("sha1priv", "md5-idealmac"):
                hdr = hdr[:24]
            groups = [("hdr", hdr[i:i + 8], HEADER_VALUES) for i in range(0, len(hdr), 8)]
            content = [p for p in range(len(base)) if p not in set(hdr)][::4][:60]
            groups += [("content", content[i:i + 40], CONTENT_VALUES) for i in range(0, len(content), 40)]
        elif entry in ("v2c", "discovery", "md5-idealmac", "trap"):
            allpos = list(range(len(base)))
            groups = [("pos", allpos[i:i + 6], allvals) for i in range(0, len(allpos), 6)]
        else:
            groups = [("hdr", hdr[i:i + 6], allvals) for i in range(0, len(hdr), 6)]
            content = [p for p in range(len(base)) if p not in set(hdr)][::2]
            groups += [("content", content[i:i + 40], CONTENT_VALUES) for i in range(0, len(content), 40)]
        for gi, (label, positions, values) in enumerate(groups):
            if not positions:
                continue
            out.append(Job(f"{entry}-substitute-{label}-{positions[0]:03d}", make_substitute(entry, positions, values),
                           [Arg("pos", 0, len(positions) - 1), Arg("val", 0, len(values) - 1)], timeout=600 if quick else 1800,
                           mode="E/concolic-window", functions=funcs, sample_every=53))
        out.append(Job(f"{entry}-truncate", make_truncate(entry), [Arg("cut", 0, min(len(base), 400))], timeout=600, mode="E/concolic-window",
                       functions=funcs, sample_every=7))
        if entry in ("v2c", "noauth", "discovery", "trap", "md5-idealmac") or not quick:
            out.append(Job(f"{entry}-nested", make_nested(entry), [Arg("depth", 1, 60), Arg("inner", 0, 2)], timeout=600,
                           mode="E/concolic-window", functions=funcs, sample_every=7))
    for entry in ("v2c", "discovery", "trap"):
        out.append(Job(f"{entry}-every-1-octet-datagram", make_short(entry, 1), [Arg("o0", 0, 255)], timeout=600, mode="E/concolic-window",
                       functions=funcs, sample_every=13))
        if quick or entry != "v2c":
            out.append(Job(f"{entry}-2-octet-datagrams", make_short(entry, 2, FIRST_OCTETS), [Arg("o0", 0, len(FIRST_OCTETS) - 1), Arg("o1", 0, 255)],
                           timeout=600, mode="E/concolic-window", functions=funcs, sample_every=53))
        else:
            for lo in range(0, 256, 16):
                out.append(Job(f"{entry}-every-2-octet-datagram-{lo:02x}", make_short(entry, 2), [Arg("o0", lo, lo + 15), Arg("o1", 0, 255)],
                               timeout=1800, mode="E/concolic-window", functions=funcs, sample_every=101))
    return out
