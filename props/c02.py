"""C02 Bulk walk returns exactly what the GETNEXT walk returns."""
import itertools

from engine.core import Arg, Job, choose, decide, known, reached, window
from props import common as C
from props.c01 import SKIP, SUB10, UNIVERSE, _Null, run_walk
from ref import ber
from ref.agent import BulkPolicy, Database

META = {
    "explanation": (
        "Mode E: symbolic agent database (one solver variable per instance of the C01 universe), symbolic bulk "
        "size and symbolic parameter of the agent's conformant GETBULK truncation policy; the reference agent "
        "consults them lazily, CrossHair/z3 enumerate the distinguishable environments to exhaustion. On each "
        "path the real Client.bulkwalk (bulkget, _bulkwalk_fetcher, multiwalk loop) runs for every listing order "
        "of the roots; the result must equal the set derived from the database and the result of the GETNEXT "
        "walk on the same database in the same path."),
    "bounds": ["universe 14 OIDs (quick, and the rows / partial policies with two roots: 10); plus a universe with a 7-instance subtree next to short / empty ones, bulk 2..4", "root lists of 1..2 disjoint roots in every order (thorough: plus five 3-root sets on the 10-OID universe, policies full / eom_stop)",
               "bulk size 1..4 (quick 1..3)", "truncation: full / k rows (k symbolic 1..3) / partial last row (j symbolic) / stop after first all-endOfMibView row",
               "v2c everywhere, v3 authPriv on selected root sets"],
    "outside": ["bulk sizes above 4", "larger universes", "non-conformant agents (C03)"],
    "stubs": ["sender = trampoline", "get_request_id pinned", "privacy plug-in = harness stream cipher"],
    "assumptions": ["reference agent implements RFC 3416 4.2.3"],
}

POLICIES = ["full", "rows", "partial", "eom_stop"]


def make_harness(kind, root_names, universe, policy, max_bulk, traced=False, via_wrapper=False):
    roots_all = [C.ROOTS[n] for n in root_names]
    nbits = len(universe)

    def h(*args):
        bits, b_sym, k_sym = args[:nbits], args[nbits], args[nbits + 1]
        memo = {}

        def present(i):
            if i not in memo:
                memo[i] = decide(bits[i])
            return memo[i]

        db = Database(universe, present)
        problem = None
        with (_Null() if traced else window()):
            bulk = choose(b_sym, 1, max_bulk)
            k = choose(k_sym, 1, 3) if policy in ("rows", "partial") else 0
            world = C.World(kind, db, bulk_policy=BulkPolicy(policy, k))
            try:
                expected = None
                for perm in itertools.permutations(roots_all):
                    world.agent.flags.clear()
                    world.flags.clear()
                    problem, expected = run_walk(world, list(perm), db, via_wrapper, expected, bulk=bulk)
                    if expected is SKIP:
                        expected = None
                    if problem:
                        h.last_problem = problem
                        flags = world.agent.flags
                        if ("bulk:duplicate-oid" in flags or "bulk:eomv-before-live" in flags) and known("F02"):
                            problem = None
                            continue
                        if "bulk:partial-row" in flags and known("F15"):
                            problem = None
                            continue
                        break
                if problem is None and expected is not None and kind == "v2c" and not via_wrapper:
                    # same path, same database: the GETNEXT walk must give the same set
                    world.agent.flags.clear()
                    first_request = world.n_requests + 1
                    p2, _ = run_walk(world, list(roots_all), db, False, expected)
                    if p2 and not (("getnext:eomv-before-live", first_request) in world.agent.flags and known("F01")):
                        problem = "GETNEXT walk disagrees: " + p2
                        h.last_problem = problem
            finally:
                world.close()
        reached()
        return problem is None

    return h


# a long subtree next to short / empty ones: continuation requests carry fewer columns than the first request
LONG = [(C.O("2.1.%d" % i), C.value_for(i)) for i in range(1, 8)] + [(C.O("2.2.1"), ("int", 1)), (C.O("4.1.0"), ("int", 2)), (C.O("4.1.1"), ("int", 3))]


def jobs(tier):
    out = []
    names = "ABCDEZ"
    quick = tier == "quick"
    universe = SUB10 if quick else UNIVERSE
    max_roots = 2 if quick else 3
    max_bulk = 3 if quick else 4
    funcs = ["puresnmp.api.raw:Client.bulkwalk", "puresnmp.api.raw:Client._bulkwalk_fetcher", "puresnmp.api.raw:Client.bulkget",
             "puresnmp.api.raw:Client.multiwalk", "puresnmp.util:group_varbinds", "puresnmp.util:get_unfinished_walk_oids",
             "puresnmp.api.raw:deduped_varbinds"]

    def args(u):
        return [Arg(f"p{i}", 0, 1) for i in range(len(u))] + [Arg("bulk", 1, max_bulk), Arg("k", 1, 3)]

    for n in range(1, max_roots + 1):
        for combo in itertools.combinations(names, n):
            for policy in POLICIES:
                if n == 1 and policy == "partial":
                    continue  # a partial row needs two repeaters
                if n == 3 and (policy in ("rows", "partial") or combo not in (("A", "B", "C"), ("A", "B", "E"), ("A", "D", "Z"), ("B", "C", "E"), ("C", "D", "E"))):
                    continue  # three roots: five root sets, policies full / eom_stop (thorough tier only)
                if quick and n == 2 and policy in ("rows", "partial") and combo not in (("A", "B"), ("A", "C"), ("B", "D"), ("C", "E"), ("D", "Z")):
                    continue
                u = universe if (n < 3 and not (n == 2 and policy in ("rows", "partial"))) else SUB10
                out.append(Job(f"bulk-v2c-{''.join(combo)}-{policy}", make_harness("v2c", combo, u, policy, max_bulk),
                               args(u), timeout=400 if quick else 1500, mode="E/concolic-window", functions=funcs,
                               sample_every=11))
    for combo in (("A", "E"), ("A", "B"), ("C", "A"), ("A", "B", "E")):
        for policy in ("full", "rows"):
            if quick and policy == "rows" and combo != ("A", "E"):
                continue
            a = [Arg(f"p{i}", 1 if i in (0, 1, 2) else 0, 1) for i in range(len(LONG))] + [Arg("bulk", 2, 4), Arg("k", 2, 3)]
            out.append(Job(f"bulk-v2c-long-{''.join(combo)}-{policy}", make_harness("v2c", combo, LONG, policy, 4), a,
                           timeout=400 if quick else 1500, mode="E/concolic-window", functions=funcs, sample_every=11))
    for combo in ([("A",), ("A", "B")] if quick else [("A",), ("A", "B"), ("C", "D"), ("E", "B")]):
        out.append(Job(f"bulk-sha1priv-{''.join(combo)}-full", make_harness("sha1priv", combo, SUB10, "full", max_bulk),
                       args(SUB10), timeout=400 if quick else 1200, mode="E/concolic-window", functions=funcs, sample_every=11))
        if not quick:
            out.append(Job(f"bulk-md5-{''.join(combo)}-eom_stop", make_harness("md5", combo, SUB10, "eom_stop", max_bulk),
                           args(SUB10), timeout=1200, mode="E/concolic-window", functions=funcs, sample_every=11))
    for combo in ([("A", "C")] if quick else [("A", "C"), ("B",)]):
        out.append(Job(f"pybulk-v2c-{''.join(combo)}-full", make_harness("v2c", combo, SUB10, "full", max_bulk, via_wrapper=True),
                       args(SUB10), timeout=400, mode="E/concolic-window",
                       functions=funcs + ["puresnmp.api.pythonic:PyWrapper.bulkwalk"], sample_every=11))
    small = [UNIVERSE[i] for i in (2, 5, 6, 8)]
    out.append(Job("traced-twin-bulk-v2c-AB", make_harness("v2c", ("A", "B"), small, "full", 2, traced=True),
                   [Arg(f"p{i}", 0, 1) for i in range(4)] + [Arg("bulk", 1, 2), Arg("k", 1, 1)], timeout=400,
                   mode="E/traced", functions=funcs))
    return out
