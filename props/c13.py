"""C13 UDP sender: bounded retries, exact timeout behaviour, no socket left open."""
from engine.core import Arg, Job, choose, known, reached, window
from ref import vloop

META = {
    "explanation": (
        "The real puresnmp.transport.send_udp and SNMPClientProtocol run on a real asyncio event loop whose "
        "selector advances a virtual clock instead of blocking and whose datagram endpoints are scripted. The fault "
        "schedule -- per attempt one of {reply in time, no reply, reply after the timeout, two replies, ICMP/OS "
        "error, connection lost, cancelled by the caller} -- the retry budget and the timeout are solver variables; CrossHair/z3 enumerate "
        "every schedule within the bound. Assertions are read from the transports' log: number and payload of "
        "sendto calls, virtual time of the return / Timeout, opened vs. closed transports after control is back in "
        "the event loop."),
    "bounds": ["retries 1..4", "timeout in {1, 2, 6} s", "7 outcomes per attempt (the six network outcomes and cancellation of the call by its caller), every sequence up to the retry budget"],
    "outside": ["real loop-back sockets and file-descriptor counts (kernel behaviour)", "replies delayed across attempts onto a later socket (each attempt has its own socket)"],
    "stubs": ["event loop = asyncio.SelectorEventLoop with a virtual-time selector; create_datagram_endpoint -> scripted transports"],
    "assumptions": ["a closed or aborted socket delivers nothing further; close()/abort() lead to connection_lost(None) on the next loop iteration, as in asyncio's selector transports"],
}

TIMEOUTS = [1, 2, 6]


def make_harness(max_retries):
    def h(retries_sym, timeout_sel, o0, o1, o2, o3):
        import asyncio
        import ipaddress
        from puresnmp.exc import Timeout
        from puresnmp.transport import Endpoint, send_udp
        problem = None
        with window():
            retries = choose(retries_sym, 1, max_retries)
            timeout = TIMEOUTS[choose(timeout_sel, 0, len(TIMEOUTS) - 1)]
            script = []
            for k, o in enumerate((o0, o1, o2, o3)[:retries]):
                script.append(choose(o, 0, 6))
                if script[-1] in (vloop.REPLY, vloop.TWO_REPLIES, vloop.CANCEL):
                    break   # later attempts are never made: their outcomes are irrelevant
            loop = vloop.VLoop(script, float(timeout))
            packet = b"\x30\x03request-payload"
            asyncio.set_event_loop(loop)
            outcome = None
            try:
                try:
                    coro = send_udp(Endpoint(ipaddress.ip_address("192.0.2.7"), 161), packet, timeout=timeout, retries=retries)
                    loop.caller_task = loop.create_task(coro)
                    result = loop.run_until_complete(loop.caller_task)
                    outcome = ("returned", result)
                except asyncio.CancelledError as exc:
                    outcome = ("cancelled", exc)
                except Timeout as exc:
                    outcome = ("timeout", exc)
                except vloop.Deadlock as exc:
                    outcome = ("deadlock", exc)
                except Exception as exc:  # noqa: BLE001
                    outcome = ("error", exc)
                t_end = loop.vtime
                try:
                    loop.settle()
                except vloop.Deadlock:
                    pass
            finally:
                asyncio.set_event_loop(None)
                loop.close()
            sends = [e for e in loop.log if e[0] == "sendto"]
            attempts = len(loop.transports)
            first_ok = next((i for i, o in enumerate(script) if o in (vloop.REPLY, vloop.TWO_REPLIES)), None)
            first_err = next((i for i, o in enumerate(script) if o in (vloop.ICMP_ERROR, vloop.CONN_LOST, vloop.CANCEL)), None)
            names = [vloop.OUTCOME_NAMES[o] for o in script]
            if outcome[0] == "deadlock":
                problem = "the call never finishes (event loop idle): %s" % names
            elif attempts > retries or len(sends) > retries:
                problem = "%d attempts / %d transmissions with retries=%d" % (attempts, len(sends), retries)
            elif any(e[2] != packet for e in sends) or any(len(t.sent) > 1 for t in loop.transports):
                problem = "a transmission differs from the request or an endpoint transmitted twice"
            else:
                open_left = [t.index for t in loop.transports if not t.is_closing()]
                if open_left:
                    problem = "socket(s) %r still open after the call %s (%s)" % (open_left, outcome[0], names)
            if problem is None:
                if first_ok is not None and (first_err is None or first_ok < first_err):
                    # a reply arrives at attempt first_ok, after first_ok timed-out attempts
                    delay = timeout / 2.0 if script[first_ok] == vloop.REPLY else timeout / 4.0
                    want_t = first_ok * timeout + delay
                    want = loop.reply_for(first_ok, packet)
                    if outcome[0] != "returned" or outcome[1] != want:
                        problem = "reply at attempt %d not returned unmodified: %r (%s)" % (first_ok, outcome, names)
                    elif abs(t_end - want_t) > 1e-6:
                        problem = "reply arrived at t=%s, call returned at t=%s" % (want_t, t_end)
                    elif attempts != first_ok + 1:
                        problem = "%d attempts although attempt %d was answered" % (attempts, first_ok)
                elif first_err is None:
                    # nothing ever arrives in time
                    if outcome[0] != "timeout":
                        problem = "no reply within %d attempts but outcome %r" % (retries, outcome)
                    elif attempts != retries or abs(t_end - retries * timeout) > 1e-6:
                        problem = "Timeout after %d attempts at t=%s (retries=%d, timeout=%d)" % (attempts, t_end, retries, timeout)
                else:
                    # an ICMP / OS error on attempt first_err: raising it or retrying are both acceptable
                    if outcome[0] == "returned":
                        problem = "a result was returned although no attempt was answered: %r" % (outcome[1],)
        reached()
        if problem:
            h.last_problem = problem
            return False
        return True

    return h


def jobs(tier):
    quick = tier == "quick"
    maxr = 4
    funcs = ["puresnmp.transport:send_udp", "puresnmp.transport:SNMPClientProtocol.connection_made",
             "puresnmp.transport:SNMPClientProtocol.datagram_received", "puresnmp.transport:SNMPClientProtocol.get_data",
             "puresnmp.transport:SNMPClientProtocol.error_received", "puresnmp.transport:SNMPClientProtocol.connection_lost"]
    out = []
    for first in range(7):
        out.append(Job(f"schedules-first-{vloop.OUTCOME_NAMES[first]}", make_harness(maxr),
                       [Arg("retries", 1, maxr), Arg("timeout", 0, 2), Arg("o0", first, first)] + [Arg(f"o{i}", 0, 6) for i in (1, 2, 3)],
                       timeout=500 if quick else 1500, mode="E/concolic-window", functions=funcs, sample_every=11))
    return out
