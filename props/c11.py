"""C11 USM privacy: scoped PDU only ever travels as the plug-in's ciphertext."""
from engine.core import Arg, Job, choose, known, reached, window
from props import common as C
from props.c01 import _Null
from ref import ber, tramp
from ref import usm as rusm
from ref.agent import Database

META = {
    "explanation": (
        "A recording, keyed stream transform is placed in the puresnmp_plugins.priv namespace (decrypt inverts "
        "encrypt). Operation, context name, hash and -- in the traced job -- the octets of a SET payload are solver "
        "variables. For every datagram the real client emits, the independent decoder and the reference USM engine "
        "check: msgData is an OCTET STRING equal to the plug-in's cipher-text of exactly the scoped PDU (which "
        "decrypts, independently, to the intended context and PDU), msgPrivacyParameters is the plug-in's salt, the "
        "key handed to the plug-in is the privacy password localised with the user's authentication hash, boots / "
        "time are the discovered ones, and the plaintext scoped PDU (and the SET value) does not occur in the "
        "datagram. Responses encrypted by the reference engine under its current time must come back decrypted "
        "with the parameters found in the message. Traced job: the authentication plug-in is replaced by a constant "
        "digest so that the symbolic SET payload stays symbolic through apply_encryption and the plug-in's XOR."),
    "bounds": ["operations get, getnext, bulkget, set, multiset, walk (2 requests)", "context names of length 0, 1, 32, 127, 128", "MD5 and SHA-1 localisation", "two users sharing privacy password and engine but not the authentication hash, in both orders", "one client switching (configure / reconfigure) between two privacy users and back",
               "SET payload: OCTET STRING of 0..4 symbolic octets (traced) / table values (window)", "engine clock advancing between discovery and response"],
    "outside": ["real DES/AES plug-ins (not installed)", "plug-ins whose decrypt does not invert encrypt"],
    "stubs": ["privacy plug-in = harness stream cipher (recording)", "sender = trampoline", "get_request_id pinned", "traced job only: usm.auth.create -> constant digest"],
    "assumptions": [],
}

UNIVERSE = [(o, C.value_for(i)) for i, o in enumerate(C.U14)]
CTX = [b"", b"c", b"x" * 32, b"y" * 127, b"z" * 128]
OPS = ["get", "getnext", "bulkget", "set", "multiset", "walk"]


def check_exchange(world, idx, kind, ctx_name, secret=None):
    """Independent examination of the idx-th datagram (0 = discovery)."""
    data = world.exchanges[idx][0]
    user = C.USERS[kind]
    eng = world.engine
    try:
        msg = ber.dec_v3_msg(data)
    except ber.BerError as exc:
        return "request %d is not well-formed: %s" % (idx, exc)
    if msg.flags % 4 != 3:
        return "request %d: msgFlags %d, not authPriv" % (idx, msg.flags)
    if msg.encrypted is None:
        return "request %d: scoped PDU travels in clear" % idx
    encs = [c for c in world.cipher.calls if c["op"] == "enc"]
    mine = [c for c in encs if c["out"] == msg.encrypted]
    if len(mine) != 1:
        return "request %d: msgData is not the plug-in's cipher-text" % idx
    call = mine[0]
    if msg.usm.priv != call["salt"]:
        return "request %d: msgPrivacyParameters %r, plug-in salt %r" % (idx, msg.usm.priv, call["salt"])
    want_key = rusm.localised_key(user.auth_proto, user.priv_password, eng.engine_id)
    if call["key"] != want_key:
        return "request %d: key handed to the plug-in is not the privacy password localised with %s" % (idx, user.auth_proto)
    if (call["engine_id"], call["boots"], call["time"]) != (eng.engine_id, msg.usm.boots, msg.usm.time):
        return "request %d: plug-in got engine/boots/time %r" % (idx, (call["engine_id"], call["boots"], call["time"]))
    if (msg.usm.boots, msg.usm.time) != world.discovered:
        return "request %d: boots/time %r, discovered %r" % (idx, (msg.usm.boots, msg.usm.time), world.discovered)
    plain = call["data"]
    try:
        scoped = ber.dec_scoped(plain)
        tag, cs, ce = ber.read_tlv(plain, 0)
    except ber.BerError as exc:
        return "request %d: plaintext handed to the plug-in is not a scoped PDU: %s" % (idx, exc)
    if ce != len(plain):
        return "request %d: plug-in was handed more than the scoped PDU" % idx
    if scoped.ctx_name != ctx_name or scoped.ctx_engine_id != eng.engine_id:
        return "request %d: context %r / %r" % (idx, scoped.ctx_engine_id, scoped.ctx_name)
    if plain in data:
        return "request %d: plaintext scoped PDU occurs in the datagram" % idx
    if secret and len(secret) >= 4 and secret in data:
        return "request %d: SET value visible on the wire" % idx
    return None


def run_op(world, op, value):
    c = world.client
    oid = C.poid(C.U14[2])
    if op == "get":
        return [C.to_ref(world.run(c.get(oid)))]
    if op == "getnext":
        return [C.vb_to_ref(world.run(c.getnext(oid)))]
    if op == "bulkget":
        res = world.run(c.bulkget([], [oid], max_list_size=2))
        return [(tuple(k.nodes), C.to_ref(v)) for k, v in res.listing.items()]
    if op == "set":
        return [C.to_ref(world.run(c.set(oid, C.from_ref(value))))]
    if op == "multiset":
        res = world.run(c.multiset({oid: C.from_ref(value), C.poid(C.U14[3]): C.from_ref(("int", 3))}))
        return sorted((tuple(k.nodes), C.to_ref(v)) for k, v in res.items())
    if op == "walk":
        return [C.vb_to_ref(v) for v in world.collect(c.walk(C.poid(C.ROOTS["A"])), budget=30)]
    raise ValueError(op)


SECRETS = [("str", b"top-secret-community"), ("str", b""), ("opaque", b"\x00\x01\x02\x03\x04\x05"), ("oid", (1, 3, 6, 1, 4, 1, 99999, 7)),
           ("int", 305419896), ("ip", bytes([10, 11, 12, 13]))]


def make_harness(kind, traced=False, nbytes=0):
    def h(op_sel, ctx_sel, val_sel, o0, o1, o2, o3):
        problem = None
        with (_Null() if traced else window()):
            op = OPS[choose(op_sel, 0, len(OPS) - 1)]
            ctx_name = CTX[choose(ctx_sel, 0, len(CTX) - 1)]
            if traced:
                value = ("str", bytes([o0, o1, o2, o3][:nbytes]))
            else:
                value = SECRETS[choose(val_sel, 0, len(SECRETS) - 1)]
            now = [1000]

            def clock():
                now[0] += 7      # the engine's time advances with every look
                return now[0]

            world = C.World(kind, Database(UNIVERSE), clock=clock, context_name=ctx_name)
            saved_auth = None
            if traced:
                import puresnmp_plugins.security.usm as usm

                class ConstMac:
                    @staticmethod
                    def authenticate_outgoing_message(key, data, engine_id):
                        return b"\x5a" * 12

                    @staticmethod
                    def authenticate_incoming_message(key, data, digest, engine_id):
                        return True

                saved_auth = usm.auth.create
                usm.auth.create = lambda method: ConstMac
                # the reference engine must not verify the constant digest
                import ref.usm as ru
                saved_verify = ru.verify
                ru.verify = lambda *a, **kw: True
            try:
                try:
                    # expected result from an honest plain run of the same agent
                    got = run_op(world, op, value)
                    disco = ber.dec_v3_msg(world.exchanges[0][1])
                    world.discovered = (disco.usm.boots, disco.usm.time)
                    for idx in range(1, len(world.exchanges)):
                        secret = None
                        if op in ("set", "multiset") and not traced:
                            secret = ber.enc_value(value)[2:] if value[0] != "int" else None
                        problem = check_exchange(world, idx, kind, ctx_name, secret)
                        if problem:
                            break
                        # response side: decrypted with the parameters found in the message
                        resp = ber.dec_v3_msg(world.exchanges[idx][1])
                        decs = [c for c in world.cipher.calls if c["op"] == "dec" and c["data"] == resp.encrypted]
                        if len(decs) != 1 or (decs[0]["boots"], decs[0]["time"], decs[0]["salt"]) != (resp.usm.boots, resp.usm.time, resp.usm.priv):
                            problem = "response %d not decrypted with the parameters found in the message" % idx
                            break
                    if problem is None:
                        ref_world = C.World("v2c", Database(UNIVERSE))
                        try:
                            want = run_op(ref_world, op, value)
                        finally:
                            ref_world.close()
                        if not (got == want):
                            problem = "result %r differs from the plain-text run %r" % (got, want)
                        if op in ("set", "multiset") and not (world.agent.sets[0] == (C.U14[2], value)):
                            problem = "agent received %r" % (world.agent.sets,)
                except Exception as exc:  # noqa: BLE001
                    fid = world.known_exception(exc)
                    if not (fid and known(fid)):
                        problem = "%s: %s" % (type(exc).__name__, exc)
            finally:
                world.close()
                if traced:
                    usm.auth.create = saved_auth
                    ru.verify = saved_verify
        reached()
        if problem:
            h.last_problem = problem
            return False
        return True

    return h


def make_two_users():
    """Two users with the same privacy password and engine, different authentication hashes, one after the other."""
    def h(order, op_sel):
        problem = None
        with window():
            kinds = ["md5privS", "sha1privS"] if choose(order, 0, 1) == 0 else ["sha1privS", "md5privS"]
            op = OPS[choose(op_sel, 0, len(OPS) - 1)]
            for kind in kinds + kinds[:1]:
                world = C.World(kind, Database(UNIVERSE))
                try:
                    try:
                        run_op(world, op, SECRETS[0])
                        disco = ber.dec_v3_msg(world.exchanges[0][1])
                        world.discovered = (disco.usm.boots, disco.usm.time)
                        for idx in range(1, len(world.exchanges)):
                            problem = check_exchange(world, idx, kind, b"")
                            if problem:
                                break
                    except Exception as exc:  # noqa: BLE001
                        fid = world.known_exception(exc)
                        if not (fid and known(fid)):
                            problem = "%s (user %s after %s): %s" % (type(exc).__name__, kind, kinds[0], exc)
                finally:
                    world.close()
                if problem:
                    break
        reached()
        if problem:
            h.last_problem = problem
            return False
        return True
    return h


def make_switch_user():
    """One client: a request as user 1, then configure / reconfigure to another privacy user (other passwords), a request, and back."""
    def h(order, op_sel, how):
        problem = None
        with window():
            kinds = ["md5priv", "sha1priv"] if choose(order, 0, 1) == 0 else ["sha1priv", "md5priv"]
            op = OPS[choose(op_sel, 0, len(OPS) - 1)]
            temporary = choose(how, 0, 1)
            world = C.World(kinds[0], Database(UNIVERSE))
            try:
                try:
                    def phase(kind):
                        before = len(world.exchanges)
                        run_op(world, op, SECRETS[0])
                        for idx in range(before, len(world.exchanges)):
                            if ber.dec_v3_msg(world.exchanges[idx][0]).usm.engine_id == b"":
                                continue   # a discovery probe
                            p = check_exchange(world, idx, kind, b"")
                            if p:
                                return p
                        return None
                    run_op(world, "get", SECRETS[0])
                    disco = ber.dec_v3_msg(world.exchanges[0][1])
                    world.discovered = (disco.usm.boots, disco.usm.time)
                    problem = phase(kinds[0])
                    if problem is None:
                        if temporary:
                            with world.client.reconfigure(credentials=C.credentials_for(kinds[1])):
                                problem = phase(kinds[1])
                        else:
                            world.client.configure(credentials=C.credentials_for(kinds[1]))
                            problem = phase(kinds[1])
                            world.client.configure(credentials=C.credentials_for(kinds[0]))
                    if problem is None:
                        problem = phase(kinds[0])
                except Exception as exc:  # noqa: BLE001
                    fid = world.known_exception(exc)
                    if not (fid and known(fid)):
                        problem = "%s: %s" % (type(exc).__name__, exc)
            finally:
                world.close()
        reached()
        if problem:
            h.last_problem = problem
            return False
        return True
    return h


def make_traced(nbytes):
    """Mode T: the SET payload octets stay symbolic through apply_encryption and the plug-in's XOR."""
    from props.c05 import capture_request

    def h(o0, o1, o2, o3):
        import puresnmp_plugins.security.usm as usm
        from x690.types import OctetString
        payload = bytes([o0, o1, o2, o3][:nbytes])
        kind = "md5priv"
        world = C.World(kind, Database(UNIVERSE), context_name=b"ctx", pin_ids=False)

        class ConstMac:
            @staticmethod
            def authenticate_outgoing_message(key, data, engine_id):
                return b"\x5a" * 12

            @staticmethod
            def authenticate_incoming_message(key, data, digest, engine_id):
                return True

        from engine.core import seam
        saved = seam(seam(usm, "auth"), "create")
        usm.auth.create = lambda method: ConstMac
        try:
            req = capture_request(world, lambda: world.client.set(C.poid(C.U14[2]), OctetString(payload)), 4242, 2)
        finally:
            usm.auth.create = saved
            world.close()
        reached()
        if req is None:
            return False
        data = req.data
        msg = ber.dec_v3_msg(data)
        user, eng = C.USERS[kind], world.engine
        calls = [c for c in world.cipher.calls if c["op"] == "enc"]
        if len(calls) != 1 or msg.encrypted is None:
            return False
        call = calls[0]
        intended = ber.enc_scoped(eng.engine_id, b"ctx", ber.enc_pdu(ber.P_SET, 4242, 0, 0, [(C.U14[2], ("str", payload))]))
        ks = rusm.StreamCipher.stream(call["key"], call["boots"], call["time"], call["salt"], len(intended))
        want_ct = bytes(a ^ b for a, b in zip(intended, ks))
        return (ber.dec_scoped(call["data"]) == ber.dec_scoped(intended) and msg.encrypted == want_ct and msg.usm.priv == call["salt"]
                and call["key"] == rusm.localised_key(user.auth_proto, user.priv_password, eng.engine_id)
                and msg.flags % 4 == 3 and len(msg.usm.auth) == 12)

    return h


def jobs(tier):
    quick = tier == "quick"
    out = []
    pf = ["puresnmp_plugins.security.usm:apply_encryption", "puresnmp_plugins.security.usm:decrypt_message", "puresnmp.util:localise_key",
          "puresnmp.adt:Message.decode", "puresnmp.adt:Message.from_sequence", "puresnmp.plugins.priv:create", "puresnmp.adt:ScopedPDU.decode"]
    for kind in ("md5priv", "sha1priv"):
        out.append(Job(f"privacy-{kind}", make_harness(kind),
                       [Arg("op", 0, len(OPS) - 1), Arg("ctx", 0, len(CTX) - 1), Arg("val", 0, len(SECRETS) - 1)] + [Arg(f"o{i}", 0, 0) for i in range(4)],
                       timeout=500, mode="E/concolic-window", functions=pf, sample_every=3))
    out.append(Job("two-users-shared-privacy-password", make_two_users(), [Arg("order", 0, 1), Arg("op", 0, len(OPS) - 1)], timeout=500,
                   mode="E/concolic-window", functions=pf))
    out.append(Job("one-client-switching-privacy-users", make_switch_user(), [Arg("order", 0, 1), Arg("op", 0, len(OPS) - 1), Arg("how", 0, 1)],
                   timeout=500, mode="E/concolic-window", functions=pf))
    for n in ((0, 2) if quick else (0, 1, 2, 4)):
        out.append(Job(f"traced-set-payload-{n}", make_traced(n), [Arg(f"o{i}", 0, 255 if i < n else 0) for i in range(4)],
                       timeout=600 if quick else 1500, mode="T", functions=pf))
    return out
