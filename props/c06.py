"""C06 Every response value reaches the caller with the type and value that was sent."""
from engine.core import Arg, Job, choose, known, reached, window
from props import common as C
from props.c01 import _Null
from ref import ber, tramp
from ref import usm as rusm

META = {
    "explanation": (
        "Mode T: the content octets of a response value (and of the request-id / error fields) are symbolic "
        "bytes; the response datagram is assembled by the independent encoder in a solver-chosen definite "
        "length form (short, 0x81..0x84, also non-minimal) and handed to the real client (mpm.decode, lazy "
        "PDU.decode_raw, x690.decode, the decode_raw of every type); what Client.multiget returns is compared "
        "-- class identity and value -- with the independent decoder's reading of the same symbolic bytes. "
        "Re-encoding: bytes() of the decoded PDU / ScopedPDU / USMSecurityParameters / Message is parsed by the "
        "independent decoder and must give the same content tree. Sizes that force realisation (65000-octet "
        "strings, OID text) are solver-chosen from tables inside a concolic window."),
    "bounds": ["INTEGER content 1..5 octets, Counter32/Gauge32/TimeTicks 1..5, Counter64 1..9 (quick: boundary sizes), fully symbolic",
               "OCTET STRING / Opaque 0..4 (thorough 0..8) symbolic octets; IpAddress 4 symbolic octets",
               "NULL and the three exception markers", "length form of every TLV: short / 81 / 82 / 83 / 84",
               "request-id: one symbolic content octet (all 256 values) x error-index 0..3", "re-encoding of USM parameters / v3 messages: field octets from {0,1,127,128,255}, every length form",
               "get_value_slice: 1..4 symbolic length octets against the real buffer length",
               "string lengths 0,1,126,127,128,255,256,65000; OIDs from a table with sub-identifiers up to 2^32-1; 0..3 bindings",
               "v2c for the symbolic jobs; v1 / v3 (all levels) for the table jobs"],
    "outside": ["indefinite lengths (C20)", "content longer than stated", "OID content octets symbolic (x690 renders OIDs as text, which forces enumeration)"],
    "stubs": ["sender = scripted response", "get_request_id pinned"],
    "assumptions": ["ref/ber.py decoder is the oracle (validated on captured packets per run)"],
}

OID0 = C.O("1.1.0")
KINDS = {"int": ber.T_INT, "c32": ber.T_C32, "g32": ber.T_G32, "tt": ber.T_TT, "c64": ber.T_C64,
         "str": ber.T_STR, "opaque": ber.T_OPAQUE, "ip": ber.T_IP}
CLASSNAMES = {"int": "Integer", "c32": "Counter", "g32": "Gauge", "tt": "TimeTicks", "c64": "Counter64",
              "str": "OctetString", "opaque": "Opaque", "ip": "IpAddress", "null": "Null", "nso": "NoSuchObject",
              "nsi": "NoSuchInstance", "eomv": "EndOfMibView", "oid": "ObjectIdentifier"}


def scripted_client(kind="v2c"):
    import warnings
    warnings.simplefilter("ignore")
    from puresnmp.api.raw import Client
    rids = C.RequestIds().install()
    client = Client("192.0.2.1", C.credentials_for(kind), sender=tramp.sender)
    return client, rids


def make_value_harness(kind, nbytes, traced=True):
    tag = KINDS[kind]

    def h(form_sel, *octets):
        problem = None
        with (_Null() if traced else window()):
            form = choose(form_sel, 0, 4)
            content = bytes(list(octets[:nbytes]))
            client, rids = scripted_client()
            try:
                rid = rids.next + 1
                value_tlv = ber.tlv(tag, content, form)
                vb = ber.tlv(ber.T_SEQ, ber.tlv(ber.T_OID, ber.enc_oid(OID0), form) + value_tlv, form)
                pdu = ber.tlv(ber.P_RESPONSE, ber.tlv(ber.T_INT, ber.enc_int(rid), form) + ber.tlv(ber.T_INT, b"\x00", form)
                              + ber.tlv(ber.T_INT, b"\x00", form) + ber.tlv(ber.T_SEQ, vb, form), form)
                resp = ber.enc_community_msg(1, b"public", pdu, form)
                result = tramp.drive(client.multiget([C.poid(OID0)]), lambda req: resp)
            finally:
                rids.remove()
            reached()
            obj = result[0]
            want = ber.dec_value(tag, content)
            if type(obj).__name__ != CLASSNAMES[kind] or type(obj).__module__ not in ("x690.types", "puresnmp.types"):
                problem = "class %s.%s for a %s" % (type(obj).__module__, type(obj).__name__, kind)
            elif kind == "ip":
                num = 0
                for o in content:
                    num = num * 256 + o
                from ipaddress import IPv4Address
                if type(obj.value) is not IPv4Address or int(obj.value) != num:
                    problem = "IpAddress value %r" % (obj.value,)
            elif kind in ("str", "opaque"):
                if not (obj.value == want[1]):
                    problem = "%s value %r, sent %r" % (kind, obj.value, want[1])
            else:
                if not (obj.value == want[1]):
                    problem = "%s value %r, sent %r" % (kind, obj.value, want[1])
        if problem:
            h.last_problem = problem
            return False
        return True

    return h


def h_markers(tag_sel, form_sel):
    """NULL and the exception markers (no content), every length form."""
    names = ["null", "nso", "nsi", "eomv"]
    sel = choose(tag_sel, 0, 3)
    form = choose(form_sel, 0, 4)
    name = names[sel]
    client, rids = scripted_client()
    try:
        rid = rids.next + 1
        vbs = [(OID0, (name,)), (C.O("1.2.0"), ("int", 3))]
        resp = ber.enc_community_msg(1, b"public", ber.enc_pdu(ber.P_RESPONSE, rid, 0, 0, vbs, form), form)
        result = tramp.drive(client.multiget([C.poid(OID0), C.poid(C.O("1.2.0"))]), lambda req: resp)
    finally:
        rids.remove()
    reached()
    return type(result[0]).__name__ == CLASSNAMES[name] and C.to_ref(result[0]) == (name,) and C.to_ref(result[1]) == ("int", 3)


def make_fields_harness(nbytes):
    """request-id given as symbolic content octets: accepted iff it equals the id sent; error-index symbolic."""
    def h(*octets):
        from puresnmp.exc import InvalidResponseId
        rid_content = bytes(list(octets[:nbytes]))
        idx_content = bytes(list(octets[nbytes:nbytes + 1]))
        client, rids = scripted_client()
        try:
            sent_rid = rids.next + 1
            vb = ber.enc_varbinds([(OID0, ("int", 1))])
            pdu = ber.tlv(ber.P_RESPONSE, ber.tlv(ber.T_INT, rid_content) + ber.tlv(ber.T_INT, b"\x00")
                          + ber.tlv(ber.T_INT, idx_content) + vb)
            resp = ber.enc_community_msg(1, b"public", pdu)
            want_rid = ber.dec_int(rid_content)
            try:
                result = tramp.drive(client.multiget([C.poid(OID0)]), lambda req: resp)
                outcome = "returned"
            except InvalidResponseId:
                outcome = "invalid-id"
        finally:
            rids.remove()
        reached()
        if want_rid == sent_rid:
            return outcome == "returned" and C.to_ref(result[0]) == ("int", 1)
        return outcome == "invalid-id"
    return h


def make_slice_harness(k):
    """x690.util.get_value_slice on a long-form length header of k symbolic octets."""
    def h(total, *octets):
        from x690.util import get_value_slice
        from x690.exc import X690Error
        n = choose(total, 8, 12)
        lens = list(octets[:k])
        data = bytes([0x04, 0x80 + k] + lens) + b"\x00" * (n - 2 - k)
        length = 0
        for o in lens:
            length = length * 256 + o
        if 2 + k + length > n:
            # over-long length: x690 formats an error message from the symbolic slice (realises it);
            # the rejection of over-long lengths is covered in C20
            return True
        reached()
        bounds, nxt = get_value_slice(data, 0)
        return bounds.start == 2 + k and bounds.stop == 2 + k + length and nxt == 2 + k + length
    return h


# ------------------------------------------------------------- re-encoding
def h_reencode_pdu(form_sel, r0, r1, v0, v1, v2, e0=0):
    import x690
    import puresnmp.pdu  # noqa: F401  (registers the PDU classes with x690)
    import puresnmp.types  # noqa: F401
    form = choose(form_sel, 0, 4)
    rid_c = bytes([r0, r1])
    val_c = bytes([v0, v1, v2])
    vb = ber.tlv(ber.T_SEQ, ber.tlv(ber.T_OID, ber.enc_oid(OID0), form) + ber.tlv(ber.T_C32, val_c, form), form)
    vb2 = ber.tlv(ber.T_SEQ, ber.tlv(ber.T_OID, ber.enc_oid(C.O("1.2.0")), form) + ber.tlv(ber.T_STR, val_c, form), form)
    # error-status 0 with an arbitrary error-index (an independent field of the PDU)
    raw = ber.tlv(ber.P_RESPONSE, ber.tlv(ber.T_INT, rid_c, form) + ber.tlv(ber.T_INT, b"\x00", form)
                  + ber.tlv(ber.T_INT, bytes([e0]), form) + ber.tlv(ber.T_SEQ, vb + vb2, form), form)
    obj, nxt = x690.decode(raw)
    content = obj.value  # force the lazy decoding, as the client does
    again = bytes(obj)
    # and the decoded content itself, re-encoded through the PDU class
    rebuilt = bytes(type(obj)(content))
    reached()
    a, _ = ber.dec_pdu(raw, 0)
    b, end = ber.dec_pdu(again, 0)
    c, _ = ber.dec_pdu(rebuilt, 0)
    fields = (content.request_id == a.request_id and content.error_status == 0 and content.error_index == a.f2
              and len(content.varbinds) == 2)
    return a == b and a == c and fields and end == len(again) and nxt == len(raw)


BYTEVALS = [0, 255, 127, 128, 1]


def h_reencode_usm(form_sel, b0, b1, t0, t1, a0):
    from puresnmp_plugins.security.usm import USMSecurityParameters
    with window():
        return _reencode_usm(choose(form_sel, 0, 4), *[BYTEVALS[choose(x, 0, 4)] for x in (b0, b1, t0, t1, a0)])


def _reencode_usm(form, b0, b1, t0, t1, a0):
    from puresnmp_plugins.security.usm import USMSecurityParameters
    boots_c, time_c = bytes([b0, b1]), bytes([t0, t1])
    raw = ber.tlv(ber.T_SEQ, ber.tlv(ber.T_STR, C.ENGINE_ID, form) + ber.tlv(ber.T_INT, boots_c, form)
                  + ber.tlv(ber.T_INT, time_c, form) + ber.tlv(ber.T_STR, b"user", form)
                  + ber.tlv(ber.T_STR, bytes([a0]) * 12, form) + ber.tlv(ber.T_STR, b"\x00" * 8, form), form)
    params = USMSecurityParameters.decode(raw)
    again = bytes(params)
    reached()
    a = ber.dec_usm(raw, 0, len(raw))
    b = ber.dec_usm(again, 0, len(again))
    same = a[:6] == b[:6]
    fields = (params.authoritative_engine_id == C.ENGINE_ID and params.authoritative_engine_boots == ber.dec_int(boots_c)
              and params.authoritative_engine_time == ber.dec_int(time_c) and params.user_name == b"user"
              and params.auth_params == bytes([a0]) * 12 and params.priv_params == b"\x00" * 8)
    return same and fields


def h_reencode_message(form_sel, enc_sel, m0, m1, f0, v0):
    """SNMPv3 message (plain and encrypted payload) and scoped PDU."""
    with window():
        return _reencode_message(choose(form_sel, 0, 4), choose(enc_sel, 0, 1), BYTEVALS[choose(m0, 0, 2)],
                                 BYTEVALS[choose(m1, 0, 4)], choose(f0, 0, 1), BYTEVALS[choose(v0, 0, 4)])


def _reencode_message(form, encrypted, m0, m1, f0, v0):
    from puresnmp.adt import Message, ScopedPDU
    flags = f0 * 4 + (3 if encrypted else 1)
    pdu = ber.enc_pdu(ber.P_RESPONSE, 77, 0, 0, [(OID0, ("str", bytes([v0, v0])))], form)
    scoped = ber.enc_scoped(C.ENGINE_ID, b"ctx", pdu, form)
    usm = ber.enc_usm(C.ENGINE_ID, 3, 4, b"u", b"\x01" * 12, b"\x02" * 8 if encrypted else b"", form)
    msg_data = ber.tlv(ber.T_STR, bytes([v0]) * 9, form) if encrypted else scoped
    hdr = ber.tlv(ber.T_SEQ, ber.tlv(ber.T_INT, bytes([m0, m1]), form) + ber.tlv(ber.T_INT, ber.enc_int(65507), form)
                  + ber.tlv(ber.T_STR, bytes([flags]), form) + ber.tlv(ber.T_INT, b"\x03", form), form)
    raw = ber.tlv(ber.T_SEQ, ber.tlv(ber.T_INT, b"\x03", form) + hdr + ber.tlv(ber.T_STR, usm, form) + msg_data, form)
    msg = Message.decode(raw)
    again = bytes(msg)
    sp = ScopedPDU.decode(scoped)
    sp_again = bytes(sp)
    reached()
    a, b = ber.dec_v3_msg(raw), ber.dec_v3_msg(again)
    same_msg = a[:5] == b[:5] and a.usm[:6] == b.usm[:6] and a.scoped == b.scoped and a.encrypted == b.encrypted
    same_scoped = ber.dec_scoped(scoped) == ber.dec_scoped(sp_again)
    typed = (type(msg).__name__ == ("EncryptedMessage" if encrypted else "PlainMessage")
             and msg.header.message_id == ber.dec_int(bytes([m0, m1])))
    return same_msg and same_scoped and typed


# ------------------------------------------------------------- table jobs
STRLENS = [0, 1, 126, 127, 128, 255, 256, 65000]
OIDVALS = [(1, 3), (0, 0), (2, 39, 127, 128), (1, 3, 6, 1, 4, 1, 2 ** 32 - 1, 16383, 16384), (2, 999, 3)]
TABLE_VALUES = ([("str", bytes([65 + (n % 26)]) * n) for n in STRLENS] + [("oid", o) for o in OIDVALS]
                + [("int", v) for v in (-2 ** 31, -129, -128, -1, 0, 127, 128, 2 ** 31 - 1)]
                + [("c32", 2 ** 32 - 1), ("g32", 2 ** 31), ("tt", 0), ("c64", 2 ** 64 - 1), ("c64", 2 ** 63),
                   ("ip", bytes([255, 0, 128, 1])), ("opaque", bytes(range(40))), ("null",), ("nso",), ("nsi",), ("eomv",)])


def make_table_harness(kind):
    from ref.agent import Database

    def h(val_sel, val_sel2, nbind, form_sel):
        problem = None
        with window():
            i1 = choose(val_sel, 0, len(TABLE_VALUES) - 1)
            i2 = choose(val_sel2, 0, len(TABLE_VALUES) - 1)
            n = choose(nbind, 0, 3)
            form = choose(form_sel, 0, 4)
            vals = [TABLE_VALUES[i1], TABLE_VALUES[i2], ("int", 5)][:n]
            oids = [C.O("1.%d.0" % (j + 1)) for j in range(n)]
            world = C.World(kind, Database(list(zip(oids, vals))))
            world.agent.response_form = form
            if world.engine is not None:
                world.engine.response_form = form
            try:
                try:
                    result = world.run(world.client.multiget([C.poid(o) for o in oids]))
                    got = [C.to_ref(v) for v in result]
                    if got != vals:
                        problem = "returned %r, agent sent %r" % (got, vals)
                        # known finding F18 (x690): first sub-identifier octet >= 128 (2.48 and above) is split wrongly
                        bad = [v for v in vals if v[0] == "oid" and len(v[1]) >= 2 and 40 * v[1][0] + v[1][1] >= 128]
                        rest_ok = all(g == v for g, v in zip(got, vals) if v not in bad) and len(got) == len(vals)
                        if bad and rest_ok and known("F18"):
                            problem = None
                    elif [type(v).__name__ for v in result] != [CLASSNAMES[v[0]] for v in vals]:
                        problem = "classes %r" % ([type(v).__name__ for v in result],)
                except Exception as exc:  # noqa: BLE001
                    fid = world.known_exception(exc)
                    if not (fid and known(fid)):
                        problem = "%s: %s" % (type(exc).__name__, exc)
            finally:
                world.close()
        reached()
        if problem:
            h.last_problem = problem
            return False
        return True

    return h


def jobs(tier):
    quick = tier == "quick"
    out = []
    df = ["x690.types:decode", "x690.util:get_value_slice", "x690.util:decode_length", "puresnmp.pdu:PDU.decode_raw",
          "x690.types:Integer.decode_raw", "puresnmp.types:IpAddress.decode_raw", "puresnmp_plugins.mpm.v2c:V2CMPM.decode",
          "puresnmp.api.raw:Client.multiget"]
    sizes = {"int": [1, 2, 4, 5], "c32": [1, 4, 5], "g32": [1, 5], "tt": [4, 5], "c64": [1, 8, 9],
             "str": [0, 1, 4], "opaque": [0, 3], "ip": [4]}
    if not quick:
        sizes = {"int": [1, 2, 3, 4, 5], "c32": [1, 2, 3, 4, 5], "g32": [1, 2, 3, 4, 5], "tt": [1, 2, 3, 4, 5],
                 "c64": list(range(1, 10)), "str": [0, 1, 2, 4, 8], "opaque": [0, 1, 3, 8], "ip": [4]}
    for kind, ns in sizes.items():
        for n in ns:
            out.append(Job(f"value-{kind}-{n}", make_value_harness(kind, n),
                           [Arg("form", 0, 4)] + ([Arg(f"o{i}", 0, 255) for i in range(n)] or [Arg("o0", 0, 0)]),
                           timeout=400 if quick else 1200, mode="T", functions=df))
    out.append(Job("value-markers", h_markers, [Arg("tag", 0, 3), Arg("form", 0, 4)], timeout=400, mode="T", functions=df))
    # (one content octet: the mismatch side formats the ids into the exception text, which enumerates them)
    out.append(Job("fields-request-id-1", make_fields_harness(1), [Arg("o0", 0, 255), Arg("o1", 0, 3)],
                   timeout=600 if quick else 1200, mode="T", functions=df + ["puresnmp.util:validate_response_id"]))
    for k in (1, 2, 3, 4):
        out.append(Job(f"slice-longform-{k}", make_slice_harness(k), [Arg("total", 8, 12)] + [Arg(f"l{i}", 0, 255) for i in range(k)],
                       timeout=300, mode="T", functions=["x690.util:get_value_slice", "x690.util:decode_length"]))
    out.append(Job("reencode-pdu", h_reencode_pdu, [Arg("form", 0, 4)] + [Arg(x, 0, 255) for x in ("r0", "r1", "v0", "v1", "v2", "e0")],
                   timeout=400, mode="T", functions=["puresnmp.pdu:PDU.decode_raw", "x690.types:X690Type.__bytes__"]))
    out.append(Job("reencode-usm", h_reencode_usm, [Arg("form", 0, 4), Arg("b0", 0, 4), Arg("b1", 0, 1), Arg("t0", 0, 4), Arg("t1", 0, 1), Arg("a0", 0, 1 if quick else 4)],
                   timeout=400, mode="E/concolic-window", sample_every=31, functions=["puresnmp_plugins.security.usm:USMSecurityParameters.decode",
                                                      "puresnmp_plugins.security.usm:USMSecurityParameters.as_snmp_type"]))
    out.append(Job("reencode-message", h_reencode_message,
                   [Arg("form", 0, 4), Arg("enc", 0, 1), Arg("m0", 0, 2), Arg("m1", 0, 4), Arg("f0", 0, 1), Arg("v0", 0, 4)],
                   timeout=400, mode="E/concolic-window", sample_every=31, functions=["puresnmp.adt:Message.decode", "puresnmp.adt:Message.from_sequence",
                                                      "puresnmp.adt:Message.__bytes__", "puresnmp.adt:ScopedPDU.decode"]))
    for kind in (("v2c", "v1", "md5") if quick else ("v1", "v2c", "noauth", "md5", "sha1", "md5priv", "sha1priv")):
        a = [Arg("val", 0, len(TABLE_VALUES) - 1), Arg("val2", 0, len(TABLE_VALUES) - 1 if not quick else 3), Arg("nbind", 0, 3),
             Arg("form", 0, 4 if kind == "v2c" or not quick else 0)]
        out.append(Job(f"table-{kind}", make_table_harness(kind), a, timeout=500 if quick else 1500, mode="E/concolic-window",
                       functions=df, sample_every=19))
    return out
