"""
Harness privacy plug-in (C11 and every authPriv job): a keyed stream
transform, decrypt(encrypt(x)) == x, which records its arguments.  The
actual transform lives in ref.usm.StreamCipher; CIPHER is set per harness.
"""
from typing import NamedTuple

IDENTIFIER = "verifstream"
IANA_ID = -2

CIPHER = None


class EncryptionResult(NamedTuple):
    ciphertext: bytes
    salt: bytes


def encrypt_data(localised_key, engine_id, engine_boots, engine_time, data):
    ct, salt = CIPHER.encrypt(localised_key, engine_id, engine_boots, engine_time, data)
    return EncryptionResult(ct, salt)


def decrypt_data(localised_key, engine_id, engine_boots, engine_time, salt, data):
    return CIPHER.decrypt(localised_key, engine_id, engine_boots, engine_time, salt, data)
