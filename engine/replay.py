"""
Native replay of a counter-example / known-finding witness in a fresh
interpreter, against /repo's current working tree, outside CrossHair.

Replay file: {"property": "C08", "tier": "quick", "job": "...", "args": [...],
              "suppress_known": true|false}
Prints ``REPLAY:{"reproduced": bool, "detail": str, "known_hits": {...}}``.
"""
import json
import os
import resource
import signal
import sys

VERIF = os.path.dirname(os.path.dirname(os.path.abspath(__file__)))
if VERIF not in sys.path:
    sys.path.insert(0, VERIF)


def main() -> int:
    path = sys.argv[1]
    with open(path) as fh:
        spec = json.load(fh)
    try:
        resource.setrlimit(resource.RLIMIT_AS, (6 << 30, 6 << 30))
    except (ValueError, OSError):
        pass
    sys.setrecursionlimit(20000)
    import logging
    logging.disable(logging.CRITICAL)
    import warnings
    warnings.simplefilter("ignore")

    from engine import core
    from engine.worker import find_job

    core.CTX.open_findings = core.load_known()
    core.CTX.suppress = bool(spec.get("suppress_known", True))
    job = find_job(spec["property"], spec.get("tier", "quick"), spec["job"])

    def on_alarm(signum, frame):  # noqa: ANN001
        sys.stdout.write("\nREPLAY:" + json.dumps(
            {"reproduced": True, "detail": "no result within 120 s (hang)", "known_hits": {}}) + "\n")
        sys.stdout.flush()
        os._exit(0)

    signal.signal(signal.SIGALRM, on_alarm)
    signal.alarm(120)
    try:
        held, detail = core.run_native(job.replay_fn or job.fn, spec["args"])
    except MemoryError:
        held, detail = False, "MemoryError under RLIMIT_AS"
    signal.alarm(0)
    sys.stdout.write("\nREPLAY:" + json.dumps(
        {"reproduced": not held, "detail": detail, "known_hits": dict(core.CTX.known_hits)}) + "\n")
    return 0


if __name__ == "__main__":
    sys.exit(main())
