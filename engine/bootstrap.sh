#!/bin/bash
# Idempotent, lock-protected creation of /verif/.venv: a venv of /venv's
# interpreter that sees /venv's site-packages (puresnmp editable = /repo/src,
# x690) plus crosshair-tool / z3-solver / cvc5 from the offline wheelhouse.
set -eu
HERE="$(cd "$(dirname "$0")/.." && pwd)"
VENV="$HERE/.venv"
STAMP="$VENV/.verif-ready"
[ -f "$STAMP" ] && exit 0
mkdir -p "$HERE/.work"
exec 9>"$HERE/.work/bootstrap.lock"
flock 9
[ -f "$STAMP" ] && exit 0
rm -rf "$VENV"
/venv/bin/python -m venv "$VENV"
SP="$VENV/lib/python3.12/site-packages"
echo "import site; site.addsitedir('/venv/lib/python3.12/site-packages')" > "$SP/_verif_base.pth"
PIP_NO_INDEX=1 "$VENV/bin/pip" install -q --no-index --find-links /opt/veriftools/wheels \
    crosshair-tool z3-solver cvc5 >/dev/null
"$VENV/bin/python" -c "import crosshair, z3, cvc5, puresnmp, x690" 
touch "$STAMP"
