"""Worker process: runs one job of one property and prints its result as JSON."""
import importlib
import json
import os
import resource
import sys

VERIF = os.path.dirname(os.path.dirname(os.path.abspath(__file__)))
if VERIF not in sys.path:
    sys.path.insert(0, VERIF)


def find_job(prop: str, tier: str, name: str):
    mod = importlib.import_module("props." + prop.lower())
    for job in mod.jobs(tier):
        if job.name == name:
            return job
    raise SystemExit(f"no such job {name} in {prop}/{tier}")


def main() -> None:
    prop, tier, name = sys.argv[1:4]
    # memory guard (a runaway job must not take the sandbox down)
    try:
        resource.setrlimit(resource.RLIMIT_AS, (12 << 30, 12 << 30))
    except (ValueError, OSError):
        pass
    sys.setrecursionlimit(20000)
    import logging
    logging.disable(logging.CRITICAL)
    import warnings
    warnings.simplefilter("ignore")
    from engine import core

    job = find_job(prop, tier, name)
    result = core.execute_job(job)
    sys.stdout.write("\nRESULT:" + json.dumps(result) + "\n")
    sys.stdout.flush()


if __name__ == "__main__":
    main()
