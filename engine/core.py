"""
Job model and the in-worker execution of one job (DESIGN.md sections 2 and 4).

A *harness* is a plain Python function over ``int`` arguments (booleans are
ints in 0..1) that calls the real puresnmp / x690 code and returns ``False``
when the property is violated (anything else = held on this input).  The same
function is

  * executed symbolically by CrossHair (z3) with every argument symbolic over
    its stated range -- the deciding step;
  * executed natively on solver-produced witnesses (native differential,
    replay of counter-examples, known-finding witnesses).

Harness-side API: `reached()`, `known(fid)`, `window()`, `symbolic_branch()`.
"""

from __future__ import annotations

import inspect
import json
import os
import sys
import time
import traceback
from dataclasses import dataclass, field
from typing import Any, Callable, Dict, List, NamedTuple, Optional, Sequence, Tuple

VERIF = os.path.dirname(os.path.dirname(os.path.abspath(__file__)))
KNOWN_FILE = os.path.join(VERIF, "known_findings.json")


class SeamMissing(Exception):
    """
    A module-level name the harness replaces (a *seam*) does not exist in the
    code under test, e.g. after a refactoring.  The job is then inconclusive,
    never a violation.
    """


def seam(module: Any, name: str) -> Any:
    if not hasattr(module, name):
        raise SeamMissing("%s.%s" % (getattr(module, "__name__", module), name))
    return getattr(module, name)


class Arg(NamedTuple):
    name: str
    lo: int
    hi: int


@dataclass
class Job:
    name: str
    fn: Callable[..., Any]
    args: List[Arg]
    timeout: float = 60.0       # CrossHair per-condition budget (seconds)
    path_timeout: float = 30.0
    mode: str = "T"             # T | E | E/concolic-window | S
    kind: str = "crosshair"     # crosshair | smt | native
    functions: List[str] = field(default_factory=list)
    stubs: List[str] = field(default_factory=list)
    note: str = ""
    sample_every: int = 1       # native-differential sampling stride after the first 30
    replay_fn: Optional[Callable[..., Any]] = None  # native harness for smt jobs


# ---------------------------------------------------------------------------
# per-process context the harnesses talk to
# ---------------------------------------------------------------------------
class _Ctx:
    def __init__(self) -> None:
        self.reached = False
        self.suppress = True
        self.known_hits: Dict[str, int] = {}
        self.open_findings: Dict[str, dict] = {}
        self.tracing_run = False  # true while CrossHair executes the harness
        self.notes: List[str] = []


CTX = _Ctx()


def load_known() -> Dict[str, dict]:
    try:
        with open(KNOWN_FILE) as fh:
            data = json.load(fh)
    except FileNotFoundError:
        return {}
    return {f["id"]: f for f in data.get("findings", []) if f.get("status") == "open"}


def reached() -> None:
    """The harness evaluated the assertion of interest on this path."""
    CTX.reached = True


def known(fid: str) -> bool:
    """
    Called by a harness that has just observed a failure whose run-signature
    is that of known finding *fid*.  True = listed and suppressed (the harness
    then treats the input as passing so the search continues elsewhere).
    """
    if not CTX.suppress or fid not in CTX.open_findings:
        return False
    CTX.known_hits[fid] = CTX.known_hits.get(fid, 0) + 1
    return True


class window:
    """
    ``with window():`` -- concolic window: inside, the real code runs with
    CrossHair's tracer switched off (all values reaching it are concrete).
    Natively a no-op.
    """

    def __enter__(self):
        self._cm = None
        if CTX.tracing_run:
            from crosshair.tracers import NoTracing
            self._cm = NoTracing()
            self._cm.__enter__()
        return self

    def __exit__(self, *exc):
        if self._cm is not None:
            return self._cm.__exit__(*exc)
        return False


class resumed:
    """``with resumed():`` -- re-enable tracing inside a `window` (agent decisions)."""

    def __enter__(self):
        self._cm = None
        if CTX.tracing_run:
            from crosshair.tracers import ResumedTracing, is_tracing
            if not is_tracing():
                self._cm = ResumedTracing()
                self._cm.__enter__()
        return self

    def __exit__(self, *exc):
        if self._cm is not None:
            return self._cm.__exit__(*exc)
        return False


def decide(value: Any) -> bool:
    """Branch on a (possibly symbolic) truth value from inside a window."""
    with resumed():
        return True if value else False


def choose(value: Any, lo: int, hi: int) -> int:
    """Concretise a (possibly symbolic) int in lo..hi by forking, from inside a window."""
    with resumed():
        for cand in range(lo, hi):
            if value == cand:
                return cand
        return hi


# ---------------------------------------------------------------------------
# solver statistics
# ---------------------------------------------------------------------------
class Stats:
    def __init__(self) -> None:
        self.solver_checks = 0
        self.solver_time = 0.0
        self.paths = 0
        self.reached_paths = 0
        self.witnesses: List[List[int]] = []
        self.failure: Optional[List[int]] = None
        self.failure_detail = ""
        self.seam_missing = ""


def _instrument_z3(stats: Stats) -> None:
    import z3  # type: ignore

    if getattr(z3.Solver.check, "_verif_wrapped", False):
        return
    orig = z3.Solver.check

    def check(self, *a):
        t0 = time.perf_counter()
        try:
            return orig(self, *a)
        finally:
            stats.solver_time += time.perf_counter() - t0
            stats.solver_checks += 1

    check._verif_wrapped = True  # type: ignore
    z3.Solver.check = check  # type: ignore


# ---------------------------------------------------------------------------
# CrossHair driver
# ---------------------------------------------------------------------------
def _peek(args: Sequence[Any]) -> Optional[List[int]]:
    """Witness of the current path's arguments by a side query (asserts nothing)."""
    from crosshair.statespace import context_statespace
    from crosshair.tracers import NoTracing
    from crosshair.libimpl.builtinslib import SymbolicBool, SymbolicInt
    import z3  # type: ignore

    with NoTracing():
        space = context_statespace()
        if str(space.solver.check()) != "sat":
            return None
        model = space.solver.model()
        out: List[int] = []
        for a in args:
            if isinstance(a, SymbolicInt):
                out.append(model.eval(a.var, model_completion=True).as_long())
            elif isinstance(a, SymbolicBool):
                out.append(1 if z3.is_true(model.eval(a.var, model_completion=True)) else 0)
            else:
                out.append(int(a))
        return out


def _realize_args(args: Sequence[Any]) -> List[int]:
    from crosshair.core import deep_realize

    return [int(deep_realize(a)) for a in args]


def _assume_bounds(args: Sequence[Any], specs: Sequence[Arg]) -> bool:
    """The stated bound as a solver assumption (no forking: a `pre:` would split 3 ways per argument)."""
    from crosshair.statespace import context_statespace
    from crosshair.tracers import NoTracing
    from crosshair.libimpl.builtinslib import SymbolicInt
    import z3  # type: ignore

    with NoTracing():
        space = context_statespace()
        for a, s in zip(args, specs):
            if isinstance(a, SymbolicInt):
                space.add(z3.And(a.var >= s.lo, a.var <= s.hi))
            elif not (s.lo <= a <= s.hi):
                return False
    return True


def make_wrapper(job: Job, stats: Stats) -> Callable[..., None]:
    specs = job.args
    fn = job.fn

    def w(*args):
        assert args is not None  # (asserts-mode needs a leading assert; the bound is assumed below)
        if not _assume_bounds(args, specs):
            return  # CrossHair occasionally probes with concrete values; outside the bound = nothing to check
        stats.paths += 1
        CTX.reached = False
        try:
            ok = fn(*args)
            failed = ok is False or (ok is not None and ok is not True and not ok)
        except SeamMissing as exc:
            stats.seam_missing = str(exc)
            return
        except Exception as exc:
            if stats.failure is None:
                stats.failure = _realize_args(args)
                stats.failure_detail = "exception " + type(exc).__name__ + ": " + str(exc)[:300]
            raise
        if failed:
            if stats.failure is None:
                stats.failure = _realize_args(args)
                stats.failure_detail = "harness returned False"
            raise AssertionError("property violated")
        if CTX.reached:
            stats.reached_paths += 1
            n = stats.reached_paths
            if n <= 30 or (n % max(job.sample_every, 1) == 0 and len(stats.witnesses) < 400):
                wit = _peek(args)
                if wit is not None:
                    stats.witnesses.append(wit)

    params = [inspect.Parameter(s.name, inspect.Parameter.POSITIONAL_OR_KEYWORD, annotation=int)
              for s in specs]
    w.__signature__ = inspect.Signature(params)  # type: ignore
    w.__annotations__ = {s.name: int for s in specs}
    return w


def run_crosshair(job: Job, stats: Stats) -> Tuple[str, List[str]]:
    from . import chplugins

    chplugins.install()
    _instrument_z3(stats)
    from crosshair.core import analyze_function, run_checkables
    from crosshair.options import DEFAULT_OPTIONS, AnalysisKind, AnalysisOptionSet

    opts = DEFAULT_OPTIONS.overlay(AnalysisOptionSet(
        analysis_kind=[AnalysisKind.asserts],
        per_condition_timeout=job.timeout,
        per_path_timeout=job.path_timeout,
        report_all=True,
        max_uninteresting_iterations=10 ** 9,
    ))
    wrapper = make_wrapper(job, stats)
    checkables = analyze_function(wrapper, opts)
    if not checkables:
        return "NO_CONDITIONS", []
    CTX.tracing_run = True
    try:
        messages = list(run_checkables(checkables))
    finally:
        CTX.tracing_run = False
    states = [m.state.name for m in messages]
    texts = [f"{m.state.name}: {m.message[:400]}" for m in messages]
    if not states:
        return "NO_MESSAGES", texts
    if any(s in ("POST_FAIL", "EXEC_ERR", "POST_ERR", "PRE_ERR") for s in states):
        return "FAIL", texts
    if all(s == "CONFIRMED" for s in states):
        return "CONFIRMED", texts
    return states[0], texts


# ---------------------------------------------------------------------------
# native execution with function coverage
# ---------------------------------------------------------------------------
def run_native(fn: Callable[..., Any], args: Sequence[int], collect: Optional[set] = None) -> Tuple[bool, str]:
    """Returns (held, detail)."""
    prof = None
    if collect is not None:
        def prof(frame, event, arg):  # noqa: ANN001
            if event == "call":
                code = frame.f_code
                fname = code.co_filename
                if ("/src/puresnmp" in fname or "/site-packages/x690/" in fname) and "harness_plugins" not in fname:
                    mod = fname.split("site-packages/")[-1].split("/src/")[-1]
                    collect.add(mod[:-3].replace("/", ".") + ":" + code.co_qualname)
        sys.setprofile(prof)
    CTX.reached = False
    try:
        ok = fn(*args)
    except SeamMissing as exc:
        return True, "seam missing: %s" % exc
    except Exception as exc:  # noqa: BLE001
        return False, "exception " + type(exc).__name__ + ": " + str(exc)[:300]
    finally:
        if prof is not None:
            sys.setprofile(None)
    if ok is False or (ok is not None and ok is not True and not ok):
        return False, "harness returned False"
    return True, ""


def execute_job(job: Job) -> Dict[str, Any]:
    """Runs inside a worker process.  Returns a JSON-able result."""
    t0 = time.time()
    stats = Stats()
    CTX.open_findings = load_known()
    res: Dict[str, Any] = {"job": job.name, "mode": job.mode, "kind": job.kind,
                           "bounds": {a.name: [a.lo, a.hi] for a in job.args}}
    functions: set = set()
    try:
        if job.kind == "crosshair":
            verdict, texts = run_crosshair(job, stats)
            res["messages"] = texts
            mismatches = []
            native_runs = 0
            if stats.seam_missing:
                verdict = "SEAM_MISSING"
                res["error"] = "seam not found in the code under test: " + stats.seam_missing
            if verdict == "CONFIRMED":
                if stats.reached_paths == 0:
                    verdict = "VACUOUS"
                for wit in stats.witnesses:
                    held, detail = run_native(job.fn, wit, functions)
                    native_runs += 1
                    if not held:
                        mismatches.append({"args": wit, "detail": detail})
                if mismatches:
                    verdict = "NATIVE_MISMATCH"
            res.update(verdict=verdict, paths=stats.paths, reached_paths=stats.reached_paths,
                       witnesses=stats.witnesses[:400], native_runs=native_runs,
                       native_mismatches=mismatches[:5], failure=stats.failure,
                       failure_detail=stats.failure_detail)
        elif job.kind == "smt":
            out = job.fn()
            res.update(out)
        elif job.kind == "native":
            # exhaustive native enumeration of a tiny finite domain (support jobs only)
            out = job.fn()
            res.update(out)
        else:
            raise ValueError(job.kind)
    except BaseException as exc:  # noqa: BLE001
        res.update(verdict="CRASH", error=type(exc).__name__ + ": " + str(exc)[:500],
                   trace=traceback.format_exc()[-1500:])
    res.setdefault("paths", stats.paths)
    res["solver_checks"] = res.get("solver_checks", 0) + stats.solver_checks
    res["solver_time_s"] = round(res.get("solver_time_s", 0.0) + stats.solver_time, 3)
    res["known_hits"] = dict(CTX.known_hits)
    res["functions"] = sorted(functions)
    res["wall_s"] = round(time.time() - t0, 2)
    return res
