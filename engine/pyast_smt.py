"""
Engine E2: direct translation of small numeric Python kernels (AST, read from
/repo's current source on every run) into SMT.

Two float semantics are available for the same AST:

  * "model": sound over-approximation in linear real/integer arithmetic.
    Every float operation returns  exact + e  with |e| <= ulp_bound/2 where
    ulp_bound is derived from a static interval bound of the operand range
    (|x| < 2^k  =>  |e| <= 2^(k-53)), and e = 0 when the exact result is an
    integer below 2^53 (such values are representable).  `unsat` is a proof
    for IEEE doubles; `sat` is only a candidate (replayed natively).
  * "exact": IEEE-754 binary64 via z3's FloatingPoint theory (RNE).

Supported constructs: the ones that occur in puresnmp.types.TimeTicks
(int/float arithmetic ``+ - * / // %``, ``int()``, ``round()``,
``timedelta(...)`` with keyword or positional days/seconds/microseconds,
``.total_seconds()``, ``.days/.seconds/.microseconds``, ``isinstance``
tests, ``is None`` tests, ``super().__init__(x)``).  Anything else raises
`NotEncodable` -- the obligation is then reported as not discharged.
"""
from __future__ import annotations

import ast
import inspect
import textwrap
from fractions import Fraction
from typing import Any, Dict, List, Optional, Tuple

import z3  # type: ignore


class NotEncodable(Exception):
    pass


US_PER_DAY = 86400 * 10 ** 6


class IntV:
    def __init__(self, e, lo: int, hi: int) -> None:
        self.e, self.lo, self.hi = e, lo, hi


class FloatV:
    """model: real term *e* with |value| <= bound;  exact: FP term.  nonneg: value >= 0 is known."""

    def __init__(self, e, bound: Fraction, nonneg: bool = False) -> None:
        self.e, self.bound, self.nonneg = e, bound, nonneg


class TdV:
    """timedelta as its total number of microseconds (normalised by construction)."""

    def __init__(self, us: IntV) -> None:
        self.us = us


class NoneV:
    pass


class Ctx:
    def __init__(self, mode: str) -> None:
        assert mode in ("model", "exact")
        self.mode = mode
        self.constraints: List[Any] = []
        self.fresh = 0
        self.ops = 0

    def new_real(self, name="e"):
        self.fresh += 1
        return z3.Real(f"{name}{self.fresh}")

    def new_int(self, name="k"):
        self.fresh += 1
        return z3.Int(f"{name}{self.fresh}")


RNE = z3.RNE()
F64 = z3.Float64()
BV64 = z3.BitVecSort(64)


def iconst(ctx: "Ctx", n: int) -> "IntV":
    if ctx.mode == "exact":
        return IntV(z3.BitVecVal(n, 64), n, n)
    return IntV(z3.IntVal(n), n, n)


def _pow2_above(x: Fraction) -> Fraction:
    p = Fraction(1, 2 ** 1080)
    while p <= x:
        p *= 2
    return p


def _float_const(ctx: Ctx, value: float) -> FloatV:
    if ctx.mode == "exact":
        return FloatV(z3.FPVal(value, F64), abs(Fraction(value)), value >= 0)
    fr = Fraction(value)  # the double's exact value
    return FloatV(z3.Q(fr.numerator, fr.denominator), abs(fr), value >= 0)


def _rounded(ctx: Ctx, exact, bound: Fraction, nonneg: bool = False) -> FloatV:
    """model mode: result of one correctly rounded operation whose exact value is *exact*."""
    ctx.ops += 1
    err = ctx.new_real("err")
    half_ulp = _pow2_above(bound) / 2 ** 53
    lim = z3.Q(half_ulp.numerator, half_ulp.denominator)
    ctx.constraints.append(z3.And(err >= -lim, err <= lim))
    # exactly representable results are returned exactly (integers below 2^53)
    if bound < 2 ** 53:
        ctx.constraints.append(z3.Implies(z3.IsInt(exact), err == 0))
    if nonneg:
        ctx.constraints.append(exact + err >= 0)  # rounding never crosses zero
    return FloatV(exact + err, bound + half_ulp, nonneg)


def to_float(ctx: Ctx, v) -> FloatV:
    if isinstance(v, FloatV):
        return v
    if isinstance(v, IntV):
        bound = Fraction(max(abs(v.lo), abs(v.hi)))
        if bound >= 2 ** 53:
            raise NotEncodable("int -> float conversion beyond 2^53")
        if ctx.mode == "exact":
            return FloatV(z3.fpSignedToFP(RNE, v.e, F64), bound, v.lo >= 0)
        return FloatV(z3.ToReal(v.e), bound, v.lo >= 0)
    raise NotEncodable("cannot convert %r to float" % type(v).__name__)


def f_binop(ctx: Ctx, op: str, a: FloatV, b: FloatV) -> FloatV:
    if ctx.mode == "exact":
        fn = {"+": z3.fpAdd, "-": z3.fpSub, "*": z3.fpMul, "/": z3.fpDiv}[op]
        if op == "/":
            bound = a.bound / b.bound if b.bound else Fraction(0)  # only constants divide here
        elif op == "*":
            bound = a.bound * b.bound
        else:
            bound = a.bound + b.bound
        return FloatV(fn(RNE, a.e, b.e), bound, a.nonneg and b.nonneg and op != "-")
    if op == "+":
        return _rounded(ctx, a.e + b.e, a.bound + b.bound, a.nonneg and b.nonneg)
    if op == "-":
        return _rounded(ctx, a.e - b.e, a.bound + b.bound)
    if op == "*":
        if not (z3.is_rational_value(z3.simplify(a.e)) or z3.is_rational_value(z3.simplify(b.e))):
            raise NotEncodable("float * float with two non-constant operands")
        return _rounded(ctx, a.e * b.e, a.bound * b.bound, a.nonneg and b.nonneg)
    if op == "/":
        bs = z3.simplify(b.e)
        if not z3.is_rational_value(bs):
            raise NotEncodable("float division by a non-constant")
        div = Fraction(bs.numerator_as_long(), bs.denominator_as_long())
        if div == 0:
            raise NotEncodable("division by zero")
        return _rounded(ctx, a.e / b.e, a.bound / abs(div), a.nonneg and div > 0)
    raise NotEncodable("float operator " + op)


def f_trunc_to_int(ctx: Ctx, f: FloatV) -> IntV:
    """Python int(float): truncation toward zero."""
    hi = int(f.bound) + 2
    lo = 0 if f.nonneg else -hi
    if ctx.mode == "exact":
        return IntV(z3.fpToSBV(z3.RTZ(), f.e, BV64), lo, hi)
    k = ctx.new_int("tr")
    x = f.e
    ctx.constraints.append(z3.If(x >= 0, z3.And(z3.ToReal(k) <= x, x < z3.ToReal(k) + 1),
                                 z3.And(z3.ToReal(k) >= x, x > z3.ToReal(k) - 1)))
    return IntV(k, lo, hi)


def f_modf(ctx: Ctx, f: FloatV) -> Tuple[FloatV, IntV]:
    """math.modf for a non-negative float: (fraction, whole) -- both exact."""
    whole = f_trunc_to_int(ctx, f)
    if ctx.mode == "exact":
        r = z3.fpRoundToIntegral(z3.RTZ(), f.e)
        return FloatV(z3.fpSub(RNE, f.e, r), Fraction(1), f.nonneg), whole  # exact (Sterbenz)
    return FloatV(f.e - z3.ToReal(whole.e), Fraction(1), f.nonneg), whole


def f_round_half_even(ctx: Ctx, f: FloatV) -> IntV:
    hi = int(f.bound) + 2
    lo = 0 if f.nonneg else -hi
    if ctx.mode == "exact":
        return IntV(z3.fpToSBV(RNE, f.e, BV64), lo, hi)
    k = ctx.new_int("rnd")
    # over-approximation: any integer within 1/2 (ties may go either way)
    ctx.constraints.append(z3.And(z3.ToReal(k) - f.e <= z3.RealVal("1/2"), f.e - z3.ToReal(k) <= z3.RealVal("1/2")))
    return IntV(k, lo, hi)


def i_binop(ctx: Ctx, op: str, a: IntV, b: IntV) -> IntV:
    if ctx.mode == "exact":
        return _i_binop_bv(op, a, b)
    if op == "+":
        return IntV(a.e + b.e, a.lo + b.lo, a.hi + b.hi)
    if op == "-":
        return IntV(a.e - b.e, a.lo - b.hi, a.hi - b.lo)
    if op == "*":
        c = [a.lo * b.lo, a.lo * b.hi, a.hi * b.lo, a.hi * b.hi]
        return IntV(a.e * b.e, min(c), max(c))
    if op in ("//", "%"):
        if not (b.lo == b.hi and b.lo > 0):
            raise NotEncodable("// or % by a non-constant or non-positive divisor")
        d = b.lo
        if op == "//":
            return IntV(a.e / z3.IntVal(d), a.lo // d, a.hi // d)  # z3 int div = floor for d > 0
        return IntV(a.e % z3.IntVal(d), 0, d - 1)
    raise NotEncodable("int operator " + op)


def _i_binop_bv(op: str, a: IntV, b: IntV) -> IntV:
    """64-bit bit-vector integers; every intermediate is checked to stay below 2^62 (no wrap)."""
    def fits(lo, hi):
        if max(abs(lo), abs(hi)) >= 2 ** 62:
            raise NotEncodable("integer beyond 62 bits in the exact encoding")
        return lo, hi
    if op == "+":
        lo, hi = fits(a.lo + b.lo, a.hi + b.hi)
        return IntV(a.e + b.e, lo, hi)
    if op == "-":
        lo, hi = fits(a.lo - b.hi, a.hi - b.lo)
        return IntV(a.e - b.e, lo, hi)
    if op == "*":
        c = [a.lo * b.lo, a.lo * b.hi, a.hi * b.lo, a.hi * b.hi]
        lo, hi = fits(min(c), max(c))
        return IntV(a.e * b.e, lo, hi)
    if op in ("//", "%"):
        if not (b.lo == b.hi and b.lo > 0) or a.lo < 0:
            raise NotEncodable("// or % needs a non-negative dividend and a positive constant divisor")
        d = z3.BitVecVal(b.lo, 64)
        if op == "//":
            return IntV(z3.UDiv(a.e, d), a.lo // b.lo, a.hi // b.lo)
        return IntV(z3.URem(a.e, d), 0, b.lo - 1)
    raise NotEncodable("int operator " + op)


def make_timedelta(ctx: Ctx, days=None, seconds=None, microseconds=None, milliseconds=None,
                   minutes=None, hours=None, weeks=None) -> TdV:
    """CPython Lib/datetime.py timedelta.__new__ for int / float arguments."""
    total = iconst(ctx, 0)
    for val, scale in ((milliseconds, 1000), (minutes, 60 * 10 ** 6), (hours, 3600 * 10 ** 6),
                       (weeks, 7 * US_PER_DAY)):
        if val is None:
            continue
        if not isinstance(val, IntV):
            raise NotEncodable("float milliseconds/minutes/hours/weeks")
        total = i_binop(ctx, "+", total, i_binop(ctx, "*", val, iconst(ctx, scale)))
    frac_us: Optional[FloatV] = None
    for val, scale in ((days, US_PER_DAY), (seconds, 10 ** 6)):
        if val is None:
            continue
        if isinstance(val, IntV):
            total = i_binop(ctx, "+", total, i_binop(ctx, "*", val, iconst(ctx, scale)))
        elif isinstance(val, FloatV):
            if scale != 10 ** 6:
                raise NotEncodable("float days")
            # secondsfrac, seconds = modf(seconds); usdouble = secondsfrac * 1e6
            frac, whole = f_modf(ctx, val)
            total = i_binop(ctx, "+", total, i_binop(ctx, "*", whole, iconst(ctx, scale)))
            frac_us = f_binop(ctx, "*", frac, _float_const(ctx, 1e6))
        else:
            raise NotEncodable("timedelta argument")
    if microseconds is not None and not isinstance(microseconds, IntV):
        raise NotEncodable("float microseconds")
    if frac_us is not None:
        if microseconds is not None:
            frac_us = f_binop(ctx, "+", to_float(ctx, microseconds), frac_us)
        total = i_binop(ctx, "+", total, f_round_half_even(ctx, frac_us))
    elif microseconds is not None:
        total = i_binop(ctx, "+", total, microseconds)
    return TdV(total)


def td_total_seconds(ctx: Ctx, td: TdV) -> FloatV:
    """(days*86400 + seconds)*10**6 + microseconds) / 10**6  -- one correctly rounded int/int division."""
    bound = Fraction(max(abs(td.us.lo), abs(td.us.hi)), 10 ** 6)
    if ctx.mode == "exact":
        if max(abs(td.us.lo), abs(td.us.hi)) >= 2 ** 53:
            raise NotEncodable("total_seconds beyond 2^53 microseconds")
        # int/int true division is correctly rounded; operands < 2^53 are exact doubles
        num = z3.fpSignedToFP(RNE, td.us.e, F64)
        return FloatV(z3.fpDiv(RNE, num, z3.FPVal(1e6, F64)), bound, td.us.lo >= 0)
    return _rounded(ctx, z3.ToReal(td.us.e) / z3.RealVal(10 ** 6), bound, td.us.lo >= 0)


class Interp:
    """Symbolic evaluator for one straight-line method body."""

    def __init__(self, ctx: Ctx, env: Dict[str, Any]) -> None:
        self.ctx = ctx
        self.env = dict(env)
        self.init_value: Any = None  # argument of super().__init__(...)
        self.returned: Any = None
        self.done = False

    # -- statements
    def run(self, body: List[ast.stmt]) -> None:
        for st in body:
            if self.done:
                return
            self.stmt(st)

    def stmt(self, st: ast.stmt) -> None:
        if isinstance(st, ast.Expr):
            if isinstance(st.value, ast.Constant) and isinstance(st.value.value, str):
                return
            self.expr(st.value)
        elif isinstance(st, ast.Assign):
            if len(st.targets) != 1 or not isinstance(st.targets[0], ast.Name):
                raise NotEncodable("assignment target")
            self.env[st.targets[0].id] = self.expr(st.value)
        elif isinstance(st, ast.AnnAssign) and isinstance(st.target, ast.Name) and st.value is not None:
            self.env[st.target.id] = self.expr(st.value)
        elif isinstance(st, ast.Return):
            self.returned = self.expr(st.value) if st.value is not None else NoneV()
            self.done = True
        elif isinstance(st, ast.If):
            cond = self.static_cond(st.test)
            self.run(st.body if cond else st.orelse)
        elif isinstance(st, ast.Pass):
            return
        else:
            raise NotEncodable("statement " + type(st).__name__)

    def static_cond(self, test: ast.expr) -> bool:
        if isinstance(test, ast.Call) and isinstance(test.func, ast.Name) and test.func.id == "isinstance":
            val = self.expr(test.args[0])
            names = []
            tgt = test.args[1]
            for n in (tgt.elts if isinstance(tgt, ast.Tuple) else [tgt]):
                names.append(n.id if isinstance(n, ast.Name) else getattr(n, "attr", "?"))
            kinds = {"timedelta": TdV, "int": IntV, "float": FloatV}
            known = [kinds[n] for n in names if n in kinds]
            if len(known) != len(names):
                if any(isinstance(val, k) for k in known):
                    return True
                if all(n in ("_SENTINEL_UNINITIALISED",) for n in names if n not in kinds):
                    return False
                raise NotEncodable("isinstance against " + ",".join(names))
            return any(isinstance(val, k) for k in known)
        if isinstance(test, ast.Compare) and len(test.ops) == 1 and isinstance(test.ops[0], (ast.Is, ast.IsNot)):
            left = self.expr(test.left)
            right = test.comparators[0]
            if isinstance(right, ast.Constant) and right.value is None:
                res = isinstance(left, NoneV)
                return res if isinstance(test.ops[0], ast.Is) else not res
            if isinstance(right, ast.Name) and right.id == "UNINITIALISED":
                return isinstance(test.ops[0], ast.IsNot)
        if isinstance(test, ast.UnaryOp) and isinstance(test.op, ast.Not):
            return not self.static_cond(test.operand)
        raise NotEncodable("condition " + ast.dump(test)[:80])

    # -- expressions
    def expr(self, e: ast.expr) -> Any:
        ctx = self.ctx
        if isinstance(e, ast.Constant):
            if isinstance(e.value, bool) or e.value is None:
                if e.value is None:
                    return NoneV()
                raise NotEncodable("bool constant")
            if isinstance(e.value, int):
                return iconst(ctx, e.value)
            if isinstance(e.value, float):
                return _float_const(ctx, e.value)
            raise NotEncodable("constant " + repr(e.value))
        if isinstance(e, ast.Name):
            if e.id in self.env:
                return self.env[e.id]
            raise NotEncodable("name " + e.id)
        if isinstance(e, ast.Attribute):
            base = self.expr(e.value)
            if isinstance(base, dict):  # self
                if e.attr in base:
                    return base[e.attr]
                raise NotEncodable("self." + e.attr)
            if isinstance(base, TdV):
                us = base.us
                day = iconst(ctx, US_PER_DAY)
                mil = iconst(ctx, 10 ** 6)
                if e.attr == "days":
                    return i_binop(ctx, "//", us, day)
                if e.attr == "seconds":
                    return i_binop(ctx, "//", i_binop(ctx, "%", us, day), mil)
                if e.attr == "microseconds":
                    return i_binop(ctx, "%", us, mil)
            raise NotEncodable("attribute ." + e.attr)
        if isinstance(e, ast.UnaryOp) and isinstance(e.op, ast.USub):
            v = self.expr(e.operand)
            if isinstance(v, IntV):
                return IntV(-v.e, -v.hi, -v.lo)
            raise NotEncodable("unary minus on float")
        if isinstance(e, ast.BinOp):
            ops = {ast.Add: "+", ast.Sub: "-", ast.Mult: "*", ast.Div: "/", ast.FloorDiv: "//", ast.Mod: "%",
                   ast.Pow: "**"}
            op = ops.get(type(e.op))
            if op is None:
                raise NotEncodable("operator " + type(e.op).__name__)
            a, b = self.expr(e.left), self.expr(e.right)
            if op == "**":
                if isinstance(a, IntV) and isinstance(b, IntV) and a.lo == a.hi and b.lo == b.hi and b.lo >= 0:
                    return iconst(ctx, a.lo ** b.lo)
                raise NotEncodable("non-constant power")
            if isinstance(a, IntV) and isinstance(b, IntV) and op != "/":
                return i_binop(ctx, op, a, b)
            if isinstance(a, TdV) and isinstance(b, TdV) and op in ("//", "%"):
                if b.us.lo != b.us.hi:
                    raise NotEncodable("timedelta // non-constant timedelta")
                res = i_binop(ctx, op, a.us, iconst(ctx, b.us.lo))
                return res if op == "//" else TdV(res)
            if isinstance(a, TdV) and isinstance(b, IntV) and op == "//":
                return TdV(i_binop(ctx, "//", a.us, b))
            if isinstance(a, (IntV, FloatV)) and isinstance(b, (IntV, FloatV)) and op in "+-*/":
                if isinstance(a, IntV) and isinstance(b, IntV):
                    # int / int: one correctly rounded division of the exact quotient
                    if not (b.lo == b.hi and b.lo != 0):
                        raise NotEncodable("int / non-constant int")
                    if ctx.mode == "exact":
                        return f_binop(ctx, "/", to_float(ctx, a), to_float(ctx, b))
                    bound = Fraction(max(abs(a.lo), abs(a.hi)), abs(b.lo))
                    return _rounded(ctx, z3.ToReal(a.e) / z3.RealVal(b.lo), bound, a.lo >= 0 and b.lo > 0)
                return f_binop(ctx, op, to_float(ctx, a), to_float(ctx, b))
            raise NotEncodable("operands of " + op)
        if isinstance(e, ast.Call):
            return self.call(e)
        raise NotEncodable("expression " + type(e).__name__)

    def call(self, e: ast.Call) -> Any:
        ctx = self.ctx
        f = e.func
        if isinstance(f, ast.Name):
            if f.id == "int" and len(e.args) == 1:
                v = self.expr(e.args[0])
                if isinstance(v, IntV):
                    return v
                if isinstance(v, FloatV):
                    return f_trunc_to_int(ctx, v)
            if f.id == "round" and len(e.args) == 1:
                v = self.expr(e.args[0])
                if isinstance(v, IntV):
                    return v
                if isinstance(v, FloatV):
                    return f_round_half_even(ctx, v)
            if f.id == "float" and len(e.args) == 1:
                return to_float(ctx, self.expr(e.args[0]))
            if f.id == "timedelta":
                names = ["days", "seconds", "microseconds", "milliseconds", "minutes", "hours", "weeks"]
                kw = {names[i]: self.expr(a) for i, a in enumerate(e.args)}
                for k in e.keywords:
                    if k.arg is None:
                        raise NotEncodable("**kwargs")
                    kw[k.arg] = self.expr(k.value)
                return make_timedelta(ctx, **kw)
            raise NotEncodable("call " + f.id)
        if isinstance(f, ast.Attribute):
            if f.attr == "total_seconds" and not e.args:
                base = self.expr(f.value)
                if isinstance(base, TdV):
                    return td_total_seconds(ctx, base)
            if f.attr == "__init__" and isinstance(f.value, ast.Call) and isinstance(f.value.func, ast.Name) \
                    and f.value.func.id == "super":
                if len(e.args) != 1:
                    raise NotEncodable("super().__init__ arity")
                self.init_value = self.expr(e.args[0])
                return NoneV()
            raise NotEncodable("method ." + f.attr)
        raise NotEncodable("call")


def function_ast(fn) -> ast.FunctionDef:
    src = textwrap.dedent(inspect.getsource(fn))
    mod = ast.parse(src)
    node = mod.body[0]
    if not isinstance(node, ast.FunctionDef):
        raise NotEncodable("not a function")
    return node
