"""
Engine self-test (run with every check, in parallel with its jobs):
 1. the bit-operation plug-in's arithmetic identity is proved by z3 against
    bit-vector AND for every mask puresnmp/x690 use;
 2. the plug-ins behave on small symbolic runs (bytes(), hash(), int(), &);
 3. the reference codec reads the repository's captured packets;
 4. RFC 3414 A.3 key-derivation vectors pass through the reference USM.
Exit 0 = trusted base behaves.
"""
import glob
import os
import sys
import time

VERIF = os.path.dirname(os.path.dirname(os.path.abspath(__file__)))
if VERIF not in sys.path:
    sys.path.insert(0, VERIF)


def main() -> int:
    t0 = time.time()
    problems = []
    from engine import chplugins
    problems += chplugins.selftest()
    chplugins.install()

    # 2. small symbolic run through the plug-ins
    from engine import core
    from x690.types import Integer, ObjectIdentifier, Sequence, OctetString

    def h(v, w):
        core.reached()
        seq = Sequence([Integer(v), OctetString(b"ab")])
        raw = bytes(seq)                      # plug-in 1
        if raw[0] != 0x30:
            return False
        if (v & 0x80) != ((v // 128) % 2) * 128:   # plug-in 2
            return False
        if (w | 0x0F) < w:
            return False
        d = {ObjectIdentifier("1.3.%d" % (w % 3)): 1}  # plug-in 3 (hash of str built from symbolic)
        return len(d) == 1

    job = core.Job("selftest", h, [core.Arg("v", -70000, 70000), core.Arg("w", 0, 1000)], timeout=60)
    res = core.execute_job(job)
    if res.get("verdict") != "CONFIRMED":
        problems.append("plug-in run: %r" % {k: res.get(k) for k in ("verdict", "messages", "error", "failure")})

    # a harness that must fail (the engine finds counter-examples at all)
    def h2(v):
        core.reached()
        return Integer(v).encode_raw() != b"\x12\x34"

    res2 = core.execute_job(core.Job("selftest-neg", h2, [core.Arg("v", -2**31, 2**31)], timeout=60))
    if res2.get("verdict") != "FAIL" or res2.get("failure") != [0x1234]:
        problems.append("negative control: %r" % {k: res2.get(k) for k in ("verdict", "failure", "messages")})

    # 3. reference codec vs captured packets
    from ref import ber
    sys.path.insert(0, "/repo")
    try:
        from tests import readbytes_multiple
        n = 0
        for path in sorted(glob.glob("/repo/tests/data/*.hex")):
            for pkt in readbytes_multiple(os.path.basename(path)):
                _, cs, ce = ber.read_tlv(pkt, 0)
                kids = ber.read_children(pkt, cs, ce)
                ver = ber.dec_int(pkt[kids[0][2]:kids[0][3]])
                (ber.dec_v3_msg if ver == 3 else ber.dec_community_msg)(pkt)
                n += 1
        if n < 20:
            problems.append("only %d captured packets decoded" % n)
    except Exception as exc:  # noqa: BLE001
        problems.append("reference codec on captured packets: %r" % (exc,))

    # 4. RFC 3414 A.3 vectors
    try:
        from ref import usm
        eng = bytes.fromhex("000000000000000000000002")
        if usm.localised_key("md5", b"maplesyrup", eng).hex() != "526f5eed9fcce26f8964c2930787d82b":
            problems.append("RFC 3414 A.3.1 (MD5) vector")
        if usm.localised_key("sha1", b"maplesyrup", eng).hex() != "6695febc9288e36282235fc7151f128497b38f3f":
            problems.append("RFC 3414 A.3.2 (SHA-1) vector")
    except Exception as exc:  # noqa: BLE001
        problems.append("reference usm: %r" % (exc,))

    for p in problems:
        print("SELFTEST-PROBLEM", p)
    print("selftest %s in %.1fs" % ("FAILED" if problems else "ok", time.time() - t0))
    return 1 if problems else 0


if __name__ == "__main__":
    sys.exit(main())
