"""
CrossHair adaptations needed to execute puresnmp / x690 symbolically.

Part of the trusted base (DESIGN.md section 2.4).  `install()` must be called
once per process before any analysis; `selftest()` proves the arithmetic
identity behind the bit-operation plug-in with z3 bit-vectors and checks the
plug-ins on small symbolic runs.

1. bytes(obj)      : dispatch to a Python-level ``__bytes__`` under tracing
2. x & m, |, ^     : exact linear-arithmetic encoding for a constant operand
3. hash(obj)       : realise symbolic hashes (C-level dict/set need an int)
4. int(obj)        : dispatch to a Python-level ``__int__`` under tracing
"""
from __future__ import annotations

import operator as ops
from typing import Any, List, Tuple

import z3  # type: ignore

_INSTALLED = False


def bit_runs(mask: int) -> List[Tuple[int, int]]:
    """Maximal runs of set bits of a non-negative mask as (lo, length)."""
    assert mask >= 0
    runs = []
    pos = 0
    while mask:
        if mask & 1:
            lo = pos
            n = 0
            while mask & 1:
                mask >>= 1
                pos += 1
                n += 1
            runs.append((lo, n))
        else:
            mask >>= 1
            pos += 1
    return runs


def smt_and_const(x: z3.ArithRef, mask: int) -> z3.ArithRef:
    """
    Exact value of the Python expression ``x & mask`` for an integer term *x*
    and a concrete *mask* (infinite two's complement semantics).

    For mask >= 0:   sum over runs [lo, lo+n) of ((x div 2^lo) mod 2^n) * 2^lo
    (z3's integer div/mod with a positive divisor are floor division and the
    non-negative remainder, i.e. exactly Python's ``//`` and ``%``).
    For mask < 0:    x & m = x - (x & ~m)  with ~m >= 0.
    """
    if mask < 0:
        return x - smt_and_const(x, ~mask)
    total: Any = z3.IntVal(0)
    for lo, n in bit_runs(mask):
        part = x if lo == 0 else x / z3.IntVal(2**lo)
        total = total + (part % z3.IntVal(2**n)) * z3.IntVal(2**lo)
    return total


def _bv_floordiv(x, d: int, width: int):
    """Python's x // d (d > 0) on signed bit-vectors, from the truncating bvsdiv/bvsrem."""
    dv = z3.BitVecVal(d, width)
    q = x / dv            # bvsdiv (truncation)
    r = z3.SRem(x, dv)
    return z3.If(z3.And(x < 0, r != 0), q - 1, q)


def _bv_mod(x, d: int, width: int):
    """Python's x % d (d > 0): x - (x // d) * d."""
    return x - _bv_floordiv(x, d, width) * z3.BitVecVal(d, width)


def _bv_linear_and(x, mask: int, width: int):
    """The plug-in's div/mod formula, evaluated with bit-vector *division* (no bit operators)."""
    if mask < 0:
        return x - _bv_linear_and(x, ~mask, width)
    total = z3.BitVecVal(0, width)
    for lo, n in bit_runs(mask):
        part = x if lo == 0 else _bv_floordiv(x, 2 ** lo, width)
        total = total + _bv_mod(part, 2 ** n, width) * z3.BitVecVal(2 ** lo, width)
    return total


def prove_identity(masks=(0x7F, 0x80, 0xFF, 0b11000000, 0b00100000, 0b00011111,
                          0xFFFFFFFF, 0xFFFFFFFFFFFFFFFF, 0b100, 0b010, 0b001,
                          -0x81, 0x7F80), timeout_ms=20000) -> List[str]:
    """
    Prove with z3 that the div/mod formula used by the plug-in equals bvand,
    for every mask puresnmp/x690 use, over all 72-bit signed x (evaluated in
    80-bit arithmetic so that nothing wraps).  The integer-arithmetic formula
    and this bit-vector formula are the same expression tree (`bit_runs`).
    Returns a list of failures (empty = all proved).
    """
    failures = []
    width = 80
    for mask in masks:
        x72 = z3.BitVec("x", 72)
        x = z3.SignExt(width - 72, x72)
        enc = _bv_linear_and(x, mask, width)
        ref = x & z3.BitVecVal(mask, width)
        solver = z3.Solver()
        solver.set("timeout", timeout_ms)
        solver.add(enc != ref)
        res = solver.check()
        if str(res) != "unsat":
            failures.append(f"mask {mask:#x}: {res}")
    return failures


def install() -> None:
    global _INSTALLED
    if _INSTALLED:
        return
    _INSTALLED = True

    import crosshair.core_and_libs  # noqa: F401  (registers the stock patches)
    import crosshair.core as core
    from crosshair.core import realize, deep_realize
    from crosshair.libimpl import builtinslib as bl
    from crosshair.tracers import NoTracing, ResumedTracing, is_tracing
    from crosshair.util import CrossHairValue

    SymbolicInt = bl.SymbolicInt

    # ---- 2. bit operations with a constant operand -------------------------
    def _const_bitop(op, sym, const: int):
        # sym: SymbolicInt, const: concrete int; called with tracing on
        with NoTracing():
            if const is True or const is False:
                const = int(const)
            anded = smt_and_const(sym.var, const)
            if op is ops.and_:
                return SymbolicInt(anded)
            if op is ops.or_:
                return SymbolicInt(sym.var + z3.IntVal(const) - anded)
            return SymbolicInt(sym.var + z3.IntVal(const) - 2 * anded)

    def _h1(op, a, b):
        return _const_bitop(op, a, b)

    def _h2(op, a, b):
        return _const_bitop(op, b, a)

    def _h3(op, a, b):
        with NoTracing():
            if a is b or z3.eq(a.var, b.var):
                if op is ops.xor:
                    return 0
                return a
        # realise the right operand (a fork per value: exact)
        return _const_bitop(op, a, realize(b))

    _h1.__annotations__ = {"a": SymbolicInt, "b": int}
    _h2.__annotations__ = {"a": int, "b": SymbolicInt}
    _h3.__annotations__ = {"a": SymbolicInt, "b": SymbolicInt}
    bl.setup_binop(_h1, {ops.and_, ops.or_, ops.xor})
    bl.setup_binop(_h2, {ops.and_, ops.or_, ops.xor})
    bl.setup_binop(_h3, {ops.and_, ops.or_, ops.xor})
    bl._BIN_OPS.clear()

    # ---- 1. bytes(obj) -------------------------------------------------------
    stock_bytes = core._PATCH_REGISTRATIONS[bytes]

    def _bytes(*a):
        if len(a) == 1:
            with NoTracing():
                src = a[0]
                typ = type(src)
                custom = None
                if not isinstance(src, (bytes, bytearray, memoryview, CrossHairValue, int, str, list, tuple)):
                    custom = getattr(typ, "__bytes__", None)
            if custom is not None:
                return custom(src)
        return stock_bytes(*a)

    core._PATCH_REGISTRATIONS[bytes] = _bytes

    # ---- 3. hash(obj) --------------------------------------------------------
    stock_hash = core._PATCH_REGISTRATIONS[hash]

    def _hash(obj):
        out = stock_hash(obj)
        with NoTracing():
            symbolic = isinstance(out, CrossHairValue)
        if symbolic:
            return realize(out)
        return out

    core._PATCH_REGISTRATIONS[hash] = _hash

    # ---- 4. int(obj) ---------------------------------------------------------
    stock_int = core._PATCH_REGISTRATIONS[int]
    depth = [0]

    def _int(*a, **kw):
        if depth[0] > 0:
            # nested call made by the stock patch itself (its final ``int(val)``)
            with NoTracing():
                return int(*a, **kw)
        if len(a) == 1 and not kw:
            with NoTracing():
                src = a[0]
                custom = None
                if not isinstance(src, (int, float, str, bytes, bytearray, CrossHairValue)):
                    custom = getattr(type(src), "__int__", None)
                    if custom is not None and not hasattr(custom, "__code__"):
                        custom = None  # C-level __int__: stock behaviour
            if custom is not None:
                return custom(src)
        depth[0] += 1
        try:
            return stock_int(*a, **kw)
        finally:
            depth[0] -= 1

    core._PATCH_REGISTRATIONS[int] = _int


def selftest() -> List[str]:
    """Returns a list of problems; empty means the plug-ins behave."""
    problems = list(prove_identity())
    # concrete spot check of the encoding via z3 evaluation
    for x in (-300, -129, -128, -1, 0, 1, 127, 128, 255, 256, 2**32 + 5, -(2**40) - 7):
        for m in (0x7F, 0x80, 0xFF, 0b11000000, 0x1F, -0x81, 0xFFFFFFFF):
            got = z3.simplify(smt_and_const(z3.IntVal(x), m)).as_long()
            if got != (x & m):
                problems.append(f"encoding {x} & {m}: {got} != {x & m}")
    return problems
