"""
Orchestrator: ``python -m engine.run <property-id> [--tier quick|thorough]
[--replay FILE] [--only SUBSTR]``

Exit status: 0 = property held on everything explored (inconclusive jobs are
reported and counted, they never alarm); 1 = a violation that reproduces
natively and is not a listed known finding; 2 = the machinery itself broke.
"""
from __future__ import annotations

import argparse
import hashlib
import importlib
import json
import os
import random
import subprocess
import sys
import time
from typing import Any, Dict, List, Optional

VERIF = os.path.dirname(os.path.dirname(os.path.abspath(__file__)))
if VERIF not in sys.path:
    sys.path.insert(0, VERIF)

PY = os.path.join(VERIF, ".venv", "bin", "python")
WORK = os.path.join(VERIF, ".work")
REPLAYS = os.path.join(VERIF, "replays")


def _env() -> Dict[str, str]:
    env = dict(os.environ)
    env["PYTHONPATH"] = VERIF
    # experiments only (seeded changes in a scratch worktree): VERIF_SRC=<worktree>/src shadows the editable
    # install of /repo; the registered commands never set it
    if os.environ.get("VERIF_SRC"):
        env["PYTHONPATH"] = os.environ["VERIF_SRC"] + os.pathsep + VERIF
    env["PYTHONHASHSEED"] = "0"
    env["PYTHONDONTWRITEBYTECODE"] = "1"
    env.pop("PURESNMP_VERIF", None)
    return env


def _parse(out: str, marker: str) -> Optional[dict]:
    for line in reversed(out.splitlines()):
        if line.startswith(marker):
            try:
                return json.loads(line[len(marker):])
            except json.JSONDecodeError:
                return None
    return None


def run_replay(spec: dict, path: Optional[str] = None) -> dict:
    if path is None:
        os.makedirs(WORK, exist_ok=True)
        path = os.path.join(WORK, "replay-%d-%s.json" % (os.getpid(), hashlib.sha1(
            json.dumps(spec, sort_keys=True).encode()).hexdigest()[:10]))
        with open(path, "w") as fh:
            json.dump(spec, fh)
        temp = True
    else:
        temp = False
    try:
        proc = subprocess.run([PY, "-m", "engine.replay", path], cwd=VERIF, env=_env(),
                              capture_output=True, text=True, timeout=200)
        res = _parse(proc.stdout, "REPLAY:")
        if res is None:
            return {"reproduced": False, "detail": "replay crashed: " + (proc.stderr or proc.stdout)[-400:],
                    "crashed": True}
        return res
    except subprocess.TimeoutExpired:
        return {"reproduced": True, "detail": "replay did not finish in 200 s"}
    finally:
        if temp:
            try:
                os.unlink(path)
            except OSError:
                pass


class Running:
    def __init__(self, job, proc, t0, hard):
        self.job, self.proc, self.t0, self.hard = job, proc, t0, hard


def run_jobs(prop: str, tier: str, jobs: list, cores: int) -> List[dict]:
    os.makedirs(WORK, exist_ok=True)
    pending = list(jobs)
    running: List[Running] = []
    results: List[dict] = []
    while pending or running:
        while pending and len(running) < cores:
            job = pending.pop(0)
            out_path = os.path.join(WORK, "job-%d-%s.out" % (os.getpid(), hashlib.sha1(job.name.encode()).hexdigest()[:10]))
            fh = open(out_path, "w")
            proc = subprocess.Popen([PY, "-m", "engine.worker", prop, tier, job.name], cwd=VERIF,
                                    env=_env(), stdout=fh, stderr=subprocess.STDOUT)
            proc._out_path = out_path  # type: ignore
            proc._fh = fh  # type: ignore
            running.append(Running(job, proc, time.time(), job.timeout * 1.6 + 90))
        time.sleep(0.05)
        for r in list(running):
            code = r.proc.poll()
            timed_out = code is None and time.time() - r.t0 > r.hard
            if code is None and not timed_out:
                continue
            if timed_out:
                r.proc.kill()
                r.proc.wait()
            r.proc._fh.close()  # type: ignore
            with open(r.proc._out_path) as fh:  # type: ignore
                out = fh.read()
            os.unlink(r.proc._out_path)  # type: ignore
            res = _parse(out, "RESULT:")
            if res is None:
                res = {"job": r.job.name, "verdict": "HARD_TIMEOUT" if timed_out else "CRASH",
                       "error": out[-600:], "paths": 0, "wall_s": round(time.time() - r.t0, 1),
                       "mode": r.job.mode, "kind": r.job.kind,
                       "bounds": {a.name: [a.lo, a.hi] for a in r.job.args}}
            res["declared_functions"] = r.job.functions
            res["stubs"] = r.job.stubs
            res["note"] = r.job.note
            results.append(res)
            running.remove(r)
    return results


def main(argv: Optional[List[str]] = None) -> int:
    ap = argparse.ArgumentParser()
    ap.add_argument("prop")
    ap.add_argument("--tier", default=os.environ.get("VERIF_TIER") or "quick")
    ap.add_argument("--replay")
    ap.add_argument("--only", default="")
    ap.add_argument("--cores", type=int, default=int(os.environ.get("VERIF_CORES", "16")))
    ns = ap.parse_args(argv)
    prop = ns.prop.upper()
    tier = ns.tier if ns.tier in ("quick", "thorough") else "quick"
    seed = int(os.environ.get("VERIF_SEED", "0") or 0)

    if ns.replay:
        with open(ns.replay) as fh:
            spec = json.load(fh)
        res = run_replay(spec, ns.replay)
        print(json.dumps(res))
        if res.get("reproduced"):
            print(f"VIOLATION property={prop} replay={ns.replay}")
            return 1
        return 0

    t0 = time.time()
    mod = importlib.import_module("props." + prop.lower())
    meta = dict(getattr(mod, "META", {}))
    jobs = list(mod.jobs(tier))
    if ns.only:
        jobs = [j for j in jobs if ns.only in j.name]
    rnd = random.Random(seed)
    # longest first, ties shuffled by seed
    order = sorted(jobs, key=lambda j: (-j.timeout, rnd.random()))

    # engine self-test in parallel
    selftest = subprocess.Popen([PY, "-m", "engine.selftest"], cwd=VERIF, env=_env(),
                                stdout=subprocess.PIPE, stderr=subprocess.STDOUT, text=True)
    results = run_jobs(prop, tier, order, ns.cores)
    st_out, _ = selftest.communicate(timeout=300)
    selftest_ok = selftest.returncode == 0
    if not selftest_ok:
        print("INCONCLUSIVE engine self-test failed:\n" + st_out[-800:])

    from engine import core
    open_findings = {k: v for k, v in core.load_known().items() if v.get("property") == prop}

    violations: List[str] = []
    inconclusive: List[str] = []
    discharged = 0
    known_hits: Dict[str, int] = {}
    samples: List[Any] = []
    distinct: set = set()
    functions: set = set()
    declared: set = set()
    evaluations = 0
    solver_checks = 0
    solver_time = 0.0
    job_rows = []
    for res in sorted(results, key=lambda r: r["job"]):
        name = res["job"]
        verdict = res.get("verdict", "CRASH")
        evaluations += int(res.get("paths", 0)) + int(res.get("native_runs", 0))
        solver_checks += int(res.get("solver_checks", 0))
        solver_time += float(res.get("solver_time_s", 0.0))
        for k, v in res.get("known_hits", {}).items():
            known_hits[k] = known_hits.get(k, 0) + v
        functions.update(res.get("functions", []))
        declared.update(res.get("declared_functions", []))
        for wit in res.get("witnesses", []):
            distinct.add((name, tuple(wit)))
        for extra in res.get("distinct", []):
            distinct.add((name, json.dumps(extra, sort_keys=True)))
        if res.get("witnesses") and len(samples) < 12:
            samples.append({"job": name, "args": dict(zip(res["bounds"].keys(), res["witnesses"][0]))})
        for smp in res.get("samples", [])[:2]:
            if len(samples) < 16:
                samples.append({"job": name, **smp} if isinstance(smp, dict) else {"job": name, "case": smp})
        row = {"job": name, "verdict": verdict, "mode": res.get("mode"), "paths": res.get("paths", 0),
               "reached_paths": res.get("reached_paths"), "wall_s": res.get("wall_s"),
               "solver_checks": res.get("solver_checks"), "bounds": res.get("bounds"),
               "note": res.get("note", "")}
        candidates = []
        if verdict == "CONFIRMED":
            if res.get("mode", "T") != "native" and not selftest_ok:
                inconclusive.append(f"{name}: engine self-test failed")
            else:
                discharged += 1
        elif verdict == "FAIL":
            if res.get("failure") is not None:
                candidates.append((res["failure"], res.get("failure_detail", "")))
            else:
                inconclusive.append(f"{name}: failure without witness: {res.get('messages')}")
        elif verdict == "NATIVE_MISMATCH":
            for mm in res.get("native_mismatches", []):
                candidates.append((mm["args"], "native differential: " + mm["detail"]))
        elif verdict == "SMT_SAT":
            for cand in res.get("candidates", []):
                candidates.append((cand, "solver model"))
        else:
            detail = res.get("error") or "; ".join(res.get("messages", []) or []) or ""
            inconclusive.append(f"{name}: {verdict} {detail[:300]}")
        for args, detail in candidates:
            spec = {"property": prop, "tier": tier, "job": name, "args": args, "suppress_known": True,
                    "detail": detail}
            os.makedirs(os.path.join(REPLAYS, prop), exist_ok=True)
            digest = hashlib.sha1(json.dumps([name, args]).encode()).hexdigest()[:10]
            safe = "".join(c if c.isalnum() or c in "-_." else "_" for c in name)[:60]
            path = os.path.join(REPLAYS, prop, f"{safe}-{digest}.json")
            with open(path, "w") as fh:
                json.dump(spec, fh, indent=1)
            rep = run_replay(spec, path)
            if rep.get("reproduced"):
                violations.append(path)
                row["violation"] = {"args": args, "detail": rep.get("detail"), "replay": path}
                print(f"VIOLATION property={prop} replay={path}")
                print(f"  job={name} args={args} :: {rep.get('detail')}")
            else:
                os.unlink(path)
                inconclusive.append(f"{name}: counter-example {args} ({detail}) did not reproduce natively: "
                                    f"{rep.get('detail')}")
        job_rows.append(row)

    # known findings: replay each listed witness without suppression
    kf_lines = []
    for fid, finding in sorted(open_findings.items()):
        wit = finding.get("witness")
        if not wit:
            continue
        spec = {"property": prop, "tier": wit.get("tier", "quick"), "job": wit["job"], "args": wit["args"],
                "suppress_known": False}
        rep = run_replay(spec)
        if rep.get("reproduced"):
            line = f"KNOWN-FINDING: property={prop} {fid} {finding['what']}"
            kf_lines.append(line)
            print(line)
        else:
            print(f"NOTE: listed finding {fid} did not reproduce on this tree ({rep.get('detail')})")

    for line in inconclusive:
        print("INCONCLUSIVE " + line)

    wall = round(time.time() - t0, 1)
    obligations = len(results)
    exhaustive = (discharged == obligations) and not violations
    evidence = {
        "property_id": prop,
        "tier": tier,
        "seed": seed,
        "level": "other",
        "coverage": {
            "explanation": meta.get("explanation", ""),
            "technique": meta.get("technique", "bounded symbolic execution of the real code (CrossHair + z3)"),
            "obligations": obligations,
            "discharged": discharged,
            "evaluations": max(evaluations, 0),
            "distinct_nontrivial": len(distinct),
            "rule": meta.get("rule", "evaluations = symbolic paths executed by CrossHair plus native differential "
                             "runs; distinct_nontrivial = distinct solver-produced witnesses (one per explored "
                             "path that reached the property's assertion), each re-executed natively"),
            "samples": samples or [{"note": "no path reached an assertion"}],
            "exhaustive": exhaustive,
            "bounds": meta.get("bounds", []),
            "outside_claim": meta.get("outside", []),
            "functions_encoded": sorted(functions) or sorted(declared),
            "functions_declared": sorted(declared),
            "stubs": meta.get("stubs", []),
            "solver_checks": solver_checks,
            "solver_time_s": round(solver_time, 2),
            "jobs": job_rows,
            "inconclusive": inconclusive,
            "known_findings_hit": known_hits,
            "known_findings_reproduced": kf_lines,
            "engine_selftest": "ok" if selftest_ok else "FAILED",
        },
        "assumptions": meta.get("assumptions", []),
        "wall_s": wall,
        "violations": len(violations),
    }
    os.makedirs(os.path.join(VERIF, "evidence"), exist_ok=True)
    with open(os.path.join(VERIF, "evidence", f"{prop}.json"), "w") as fh:
        json.dump(evidence, fh, indent=1)
    print(f"{prop} tier={tier} obligations={obligations} discharged={discharged} "
          f"inconclusive={len(inconclusive)} violations={len(violations)} paths={evaluations} "
          f"solver_checks={solver_checks} solver_time={solver_time:.1f}s wall={wall}s")
    if violations:
        return 1
    return 0


if __name__ == "__main__":
    try:
        sys.exit(main())
    except SystemExit:
        raise
    except BaseException as exc:  # noqa: BLE001
        import traceback
        traceback.print_exc()
        sys.exit(2)
