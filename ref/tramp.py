"""
Coroutine trampoline: drives puresnmp's ``async def`` operations without an
event loop.  ``Client(sender=sender)``: every ``await self.sender(...)``
suspends the coroutine with a `Request`; the driver answers it from the
harness's agent.  Deterministic, no threads, works under CrossHair tracing,
and lets a scheduler hold several suspended operations (C14).
"""

from typing import Any, Callable, Dict, List, Optional


class Request:
    def __init__(self, endpoint: Any, data: bytes, kw: Dict[str, Any]) -> None:
        self.endpoint = endpoint
        self.data = data
        self.kw = kw

    def __await__(self):
        response = yield self
        return response


async def sender(endpoint, data, timeout=None, loop=None, retries=None):
    return await Request(endpoint, data, {"timeout": timeout, "retries": retries})


class Raise:
    """An agent may return Raise(exc) to make the sender raise."""

    def __init__(self, exc: BaseException) -> None:
        self.exc = exc


class Budget(Exception):
    """Raised by drivers when an operation exceeds its exchange budget."""


def drive(coro, agent: Callable[[Request], Any], budget: int = 1000):
    """Run *coro* to completion, answering its requests with agent(request)."""
    n = 0
    try:
        req = coro.send(None)
        while True:
            n += 1
            if n > budget:
                coro.close()
                raise Budget(n)
            ans = agent(req)
            if isinstance(ans, Raise):
                req = coro.throw(ans.exc)
            else:
                req = coro.send(ans)
    except StopIteration as stop:
        return stop.value


def drain(agen, agent: Callable[[Request], Any], budget: int = 1000, max_items: int = 100000) -> List[Any]:
    """Collect an async generator.  *budget* bounds the total exchanges."""
    out: List[Any] = []
    count = [0]

    def counted(req):
        count[0] += 1
        if count[0] > budget:
            raise Budget(count[0])
        return agent(req)

    try:
        while True:
            try:
                item = drive(agen.__anext__(), counted, budget=budget + 1)
            except StopAsyncIteration:
                break
            out.append(item)
            if len(out) > max_items:
                raise Budget(len(out))
    except Budget:
        try:
            drive(agen.aclose(), lambda r: Raise(RuntimeError("closed")), budget=3)
        except BaseException:  # noqa: BLE001 - closing a broken generator
            pass
        raise
    return out


class Op:
    """A suspended operation for the scheduler harnesses (C14)."""

    def __init__(self, coro) -> None:
        self.coro = coro
        self.pending: Optional[Request] = None
        self.done = False
        self.result: Any = None
        self.error: Optional[BaseException] = None
        self._step(lambda: self.coro.send(None))

    def _step(self, fn) -> None:
        try:
            self.pending = fn()
        except StopIteration as stop:
            self.done, self.pending, self.result = True, None, stop.value
        except Exception as exc:  # noqa: BLE001
            self.done, self.pending, self.error = True, None, exc

    def answer(self, response: Any) -> None:
        if isinstance(response, Raise):
            self._step(lambda: self.coro.throw(response.exc))
        else:
            self._step(lambda: self.coro.send(response))


async def collect(agen) -> List[Any]:
    out = []
    async for item in agen:
        out.append(item)
    return out
