"""
Independent BER codec for SNMP (X.690 section 8, RFC 1157, RFC 3416, RFC 3417
section 8, RFC 3412 section 6, RFC 3414 section 2.4).

Shares no code with puresnmp or x690.  Written with ``+ * // %`` and
comparisons only so that it also runs on CrossHair's symbolic ``int`` /
``bytes`` (no int.from_bytes / to_bytes, no bit operators).

Value model: a value is a tuple whose first element names the SNMP type

    ("int", v) ("str", b) ("null",) ("oid", (1,3,...)) ("ip", b4)
    ("c32", v) ("g32", v) ("tt", v) ("opaque", b) ("c64", v)
    ("nso",) ("nsi",) ("eomv",)  ("unknown", tag, content)
"""

from typing import Any, List, NamedTuple, Optional, Sequence, Tuple


class BerError(Exception):
    pass


T_INT, T_STR, T_NULL, T_OID, T_SEQ = 0x02, 0x04, 0x05, 0x06, 0x30
T_IP, T_C32, T_G32, T_TT, T_OPAQUE, T_C64 = 0x40, 0x41, 0x42, 0x43, 0x44, 0x46
T_NSO, T_NSI, T_EOMV = 0x80, 0x81, 0x82
P_GET, P_GETNEXT, P_RESPONSE, P_SET, P_TRAPV1, P_BULK, P_INFORM, P_TRAP, P_REPORT = (
    0xA0, 0xA1, 0xA2, 0xA3, 0xA4, 0xA5, 0xA6, 0xA7, 0xA8)

NAME2TAG = {"int": T_INT, "str": T_STR, "null": T_NULL, "oid": T_OID, "ip": T_IP,
            "c32": T_C32, "g32": T_G32, "tt": T_TT, "opaque": T_OPAQUE,
            "c64": T_C64, "nso": T_NSO, "nsi": T_NSI, "eomv": T_EOMV}
TAG2NAME = {v: k for k, v in NAME2TAG.items()}

Oid = Tuple[int, ...]


# --------------------------------------------------------------------------
# encoding
# --------------------------------------------------------------------------
def enc_len(n: int, form: int = 0) -> bytes:
    """form 0: minimal definite form; form k in 1..4: long form, k octets."""
    if form == 0:
        if n < 128:
            return bytes([n])
        octs: List[int] = []
        while n > 0:
            octs.insert(0, n % 256)
            n = n // 256
        return bytes([128 + len(octs)] + octs)
    while n >= 256 ** form:
        form += 1  # the requested number of length octets is a minimum
    octs = []
    for _ in range(form):
        octs.insert(0, n % 256)
        n = n // 256
    return bytes([128 + form] + octs)


def tlv(tag: int, content: bytes, form: int = 0) -> bytes:
    return bytes([tag]) + enc_len(len(content), form) + content


def enc_int(v: int) -> bytes:
    """Minimal two's complement content octets of a signed integer."""
    n = 1
    while not (-(2 ** (8 * n - 1)) <= v < 2 ** (8 * n - 1)):
        n += 1
    if v < 0:
        v = v + 2 ** (8 * n)
    octs = []
    for _ in range(n):
        octs.insert(0, v % 256)
        v = v // 256
    return bytes(octs)


def enc_subid(v: int) -> List[int]:
    octs = [v % 128]
    v = v // 128
    while v > 0:
        octs.insert(0, 128 + v % 128)
        v = v // 128
    return octs


def enc_oid(nodes: Sequence[int]) -> bytes:
    if len(nodes) == 0:
        return b""
    if len(nodes) == 1:
        return bytes(enc_subid(40 * nodes[0]))
    out = enc_subid(40 * nodes[0] + nodes[1])
    for n in nodes[2:]:
        out.extend(enc_subid(n))
    return bytes(out)


def enc_value(val: tuple, form: int = 0) -> bytes:
    kind = val[0]
    if kind == "unknown":
        return tlv(val[1], val[2], form)
    tag = NAME2TAG[kind]
    if kind in ("int", "c32", "g32", "tt", "c64"):
        # unsigned application types are encoded like INTEGER (RFC 3417 8.)
        return tlv(tag, enc_int(val[1]), form)
    if kind in ("str", "opaque", "ip"):
        return tlv(tag, bytes(val[1]), form)
    if kind == "oid":
        return tlv(tag, enc_oid(val[1]), form)
    return tlv(tag, b"", form)  # null and the exception markers


def enc_varbinds(varbinds: Sequence[Tuple[Oid, tuple]], form: int = 0) -> bytes:
    body = b""
    for oid, val in varbinds:
        body += tlv(T_SEQ, tlv(T_OID, enc_oid(oid), form) + enc_value(val, form), form)
    return tlv(T_SEQ, body, form)


def enc_pdu(tag: int, request_id: int, f1: int, f2: int,
            varbinds: Sequence[Tuple[Oid, tuple]], form: int = 0) -> bytes:
    body = (tlv(T_INT, enc_int(request_id), form) + tlv(T_INT, enc_int(f1), form)
            + tlv(T_INT, enc_int(f2), form) + enc_varbinds(varbinds, form))
    return tlv(tag, body, form)


def enc_community_msg(version: int, community: bytes, pdu: bytes, form: int = 0) -> bytes:
    return tlv(T_SEQ, tlv(T_INT, enc_int(version), form) + tlv(T_STR, community, form) + pdu, form)


# --------------------------------------------------------------------------
# decoding
# --------------------------------------------------------------------------
def read_tlv(data: bytes, pos: int, end: Optional[int] = None) -> Tuple[int, int, int]:
    """
    Returns (tag, content_start, content_end).  Rejects multi-octet tags,
    indefinite and reserved lengths, and values running past *end*.
    """
    if end is None:
        end = len(data)
    if pos + 2 > end:
        raise BerError("truncated header")
    tag = data[pos]
    if tag % 32 == 31:
        raise BerError("multi-octet tag")
    first = data[pos + 1]
    if first < 128:
        length = first
        start = pos + 2
    else:
        k = first - 128
        if k == 0:
            raise BerError("indefinite length")
        if k == 127:
            raise BerError("reserved length")
        if pos + 2 + k > end:
            raise BerError("truncated length")
        length = 0
        for i in range(k):
            length = length * 256 + data[pos + 2 + i]
        start = pos + 2 + k
    if start + length > end:
        raise BerError("value runs past the end")
    return tag, start, start + length


def dec_int(content: bytes, signed: bool = True) -> int:
    if len(content) == 0:
        raise BerError("empty integer")
    acc = 0
    for b in content:
        acc = acc * 256 + b
    if signed and content[0] >= 128:
        acc -= 256 ** len(content)
    return acc


def dec_oid(content: bytes) -> Oid:
    if len(content) == 0:
        return ()
    subids = []
    acc = 0
    pending = False
    for b in content:
        if b >= 128:
            acc = acc * 128 + (b - 128)
            pending = True
        else:
            subids.append(acc * 128 + b)
            acc = 0
            pending = False
    if pending:
        raise BerError("unterminated sub-identifier")
    first = subids[0]
    if first < 40:
        head = (0, first)
    elif first < 80:
        head = (1, first - 40)
    else:
        head = (2, first - 80)
    return tuple(head) + tuple(subids[1:])


def dec_value(tag: int, content: bytes) -> tuple:
    if tag == T_INT:
        return ("int", dec_int(content))
    if tag in (T_C32, T_G32, T_TT, T_C64):
        return (TAG2NAME[tag], dec_int(content, signed=False))
    if tag in (T_STR, T_OPAQUE, T_IP):
        return (TAG2NAME[tag], bytes(content))
    if tag == T_OID:
        return ("oid", dec_oid(content))
    if tag in (T_NULL, T_NSO, T_NSI, T_EOMV):
        if len(content) != 0:
            raise BerError("non-empty NULL-like value")
        return (TAG2NAME[tag],)
    return ("unknown", tag, bytes(content))


def read_children(data: bytes, start: int, end: int) -> List[Tuple[int, int, int, int]]:
    """Children of a constructed value as (header_pos, tag, content_start, content_end)."""
    out = []
    pos = start
    while pos < end:
        tag, cs, ce = read_tlv(data, pos, end)
        out.append((pos, tag, cs, ce))
        pos = ce
    return out


def dec_varbinds(data: bytes, start: int, end: int) -> List[Tuple[Oid, tuple]]:
    out = []
    for _pos, tag, cs, ce in read_children(data, start, end):
        if tag != T_SEQ:
            raise BerError("varbind is not a SEQUENCE")
        kids = read_children(data, cs, ce)
        if len(kids) != 2 or kids[0][1] != T_OID:
            raise BerError("malformed varbind")
        oid = dec_oid(data[kids[0][2]:kids[0][3]])
        val = dec_value(kids[1][1], data[kids[1][2]:kids[1][3]])
        out.append((oid, val))
    return out


class Pdu(NamedTuple):
    tag: int
    request_id: int
    f1: int  # error-status / non-repeaters
    f2: int  # error-index / max-repetitions
    varbinds: List[Tuple[Oid, tuple]]


def dec_pdu(data: bytes, pos: int, end: Optional[int] = None) -> Tuple[Pdu, int]:
    tag, cs, ce = read_tlv(data, pos, end)
    if tag < 0xA0 or tag > 0xA8:
        raise BerError("not a PDU tag")
    kids = read_children(data, cs, ce)
    if len(kids) != 4 or [k[1] for k in kids] != [T_INT, T_INT, T_INT, T_SEQ]:
        raise BerError("malformed PDU")
    rid = dec_int(data[kids[0][2]:kids[0][3]])
    f1 = dec_int(data[kids[1][2]:kids[1][3]])
    f2 = dec_int(data[kids[2][2]:kids[2][3]])
    vbs = dec_varbinds(data, kids[3][2], kids[3][3])
    return Pdu(tag, rid, f1, f2, vbs), ce


class CommunityMsg(NamedTuple):
    version: int
    community: bytes
    pdu: Pdu


def dec_community_msg(data: bytes) -> CommunityMsg:
    tag, cs, ce = read_tlv(data, 0)
    if tag != T_SEQ or ce != len(data):
        raise BerError("not a single SEQUENCE")
    kids = read_children(data, cs, ce)
    if len(kids) != 3 or kids[0][1] != T_INT or kids[1][1] != T_STR:
        raise BerError("malformed community message")
    version = dec_int(data[kids[0][2]:kids[0][3]])
    community = bytes(data[kids[1][2]:kids[1][3]])
    pdu, _ = dec_pdu(data, kids[2][0], ce)
    return CommunityMsg(version, community, pdu)


class Usm(NamedTuple):
    engine_id: bytes
    boots: int
    time: int
    user: bytes
    auth: bytes
    priv: bytes
    auth_span: Tuple[int, int]  # absolute position of the auth parameter content


class Scoped(NamedTuple):
    ctx_engine_id: bytes
    ctx_name: bytes
    pdu: Pdu


class V3Msg(NamedTuple):
    version: int
    msg_id: int
    max_size: int
    flags: int
    sec_model: int
    usm: Usm
    scoped: Optional[Scoped]
    encrypted: Optional[bytes]
    data_span: Tuple[int, int]  # absolute span of the msgData TLV (header incl.)


def dec_scoped(data: bytes, pos: int = 0, end: Optional[int] = None) -> Scoped:
    tag, cs, ce = read_tlv(data, pos, end)
    if tag != T_SEQ:
        raise BerError("scoped PDU is not a SEQUENCE")
    kids = read_children(data, cs, ce)
    if len(kids) != 3 or kids[0][1] != T_STR or kids[1][1] != T_STR:
        raise BerError("malformed scoped PDU")
    pdu, _ = dec_pdu(data, kids[2][0], ce)
    return Scoped(bytes(data[kids[0][2]:kids[0][3]]), bytes(data[kids[1][2]:kids[1][3]]), pdu)


def dec_usm(data: bytes, start: int, end: int) -> Usm:
    tag, cs, ce = read_tlv(data, start, end)
    if tag != T_SEQ or ce != end:
        raise BerError("USM parameters are not a single SEQUENCE")
    kids = read_children(data, cs, ce)
    if [k[1] for k in kids] != [T_STR, T_INT, T_INT, T_STR, T_STR, T_STR]:
        raise BerError("malformed USM parameters")
    seg = lambda k: bytes(data[k[2]:k[3]])
    return Usm(seg(kids[0]), dec_int(seg(kids[1])), dec_int(seg(kids[2])), seg(kids[3]),
               seg(kids[4]), seg(kids[5]), (kids[4][2], kids[4][3]))


def dec_v3_msg(data: bytes) -> V3Msg:
    tag, cs, ce = read_tlv(data, 0)
    if tag != T_SEQ or ce != len(data):
        raise BerError("not a single SEQUENCE")
    kids = read_children(data, cs, ce)
    if len(kids) != 4 or kids[0][1] != T_INT or kids[1][1] != T_SEQ or kids[2][1] != T_STR:
        raise BerError("malformed v3 message")
    version = dec_int(data[kids[0][2]:kids[0][3]])
    hdr = read_children(data, kids[1][2], kids[1][3])
    if [k[1] for k in hdr] != [T_INT, T_INT, T_STR, T_INT]:
        raise BerError("malformed header data")
    msg_id = dec_int(data[hdr[0][2]:hdr[0][3]])
    max_size = dec_int(data[hdr[1][2]:hdr[1][3]])
    if hdr[2][3] - hdr[2][2] != 1:
        raise BerError("msgFlags is not one octet")
    flags = data[hdr[2][2]]
    sec_model = dec_int(data[hdr[3][2]:hdr[3][3]])
    usm = dec_usm(data, kids[2][2], kids[2][3])
    scoped = None
    encrypted = None
    if kids[3][1] == T_SEQ:
        scoped = dec_scoped(data, kids[3][0], ce)
    elif kids[3][1] == T_STR:
        encrypted = bytes(data[kids[3][2]:kids[3][3]])
    else:
        raise BerError("msgData is neither SEQUENCE nor OCTET STRING")
    return V3Msg(version, msg_id, max_size, flags, sec_model, usm, scoped, encrypted,
                 (kids[3][0], kids[3][3]))


def enc_scoped(ctx_engine_id: bytes, ctx_name: bytes, pdu: bytes, form: int = 0) -> bytes:
    return tlv(T_SEQ, tlv(T_STR, ctx_engine_id, form) + tlv(T_STR, ctx_name, form) + pdu, form)


def enc_usm(engine_id: bytes, boots: int, time: int, user: bytes, auth: bytes,
            priv: bytes, form: int = 0) -> bytes:
    return tlv(T_SEQ, tlv(T_STR, engine_id, form) + tlv(T_INT, enc_int(boots), form)
               + tlv(T_INT, enc_int(time), form) + tlv(T_STR, user, form)
               + tlv(T_STR, auth, form) + tlv(T_STR, priv, form), form)


def enc_v3_msg(msg_id: int, max_size: int, flags: int, sec_model: int, usm: bytes,
               msg_data: bytes, form: int = 0) -> bytes:
    hdr = tlv(T_SEQ, tlv(T_INT, enc_int(msg_id), form) + tlv(T_INT, enc_int(max_size), form)
              + tlv(T_STR, bytes([flags]), form) + tlv(T_INT, enc_int(sec_model), form), form)
    return tlv(T_SEQ, tlv(T_INT, enc_int(3), form) + hdr + tlv(T_STR, usm, form) + msg_data, form)


def oid(text: str) -> Oid:
    text = text.strip(".")
    return tuple(int(p) for p in text.split(".")) if text else ()


def oid_str(nodes: Sequence[int]) -> str:
    return ".".join(str(n) for n in nodes)
