"""
Reference SNMP agent (RFC 1157 4.1, RFC 3416 4.2.1-4.2.3, 4.2.5) used as the
environment and oracle of the harnesses.  Built on ref.ber only.

The database is an *ordered universe* of (oid, value) pairs plus a callable
``present(i)`` deciding membership.  Harnesses pass a ``present`` that reads
a symbolic bit lazily, so that only the membership questions a run actually
asks become solver branches.
"""

from typing import Any, Callable, Dict, List, Optional, Sequence, Tuple

from . import ber
from .ber import Oid, Pdu

EOMV = ("eomv",)
NSI = ("nsi",)
NSO = ("nso",)


class Database:
    def __init__(self, universe: Sequence[Tuple[Oid, tuple]],
                 present: Optional[Callable[[int], bool]] = None) -> None:
        self.universe = sorted(universe, key=lambda kv: kv[0])
        keys = [kv[0] for kv in self.universe]
        assert len(set(keys)) == len(keys)
        self.index = {k: i for i, k in enumerate(keys)}
        self._present = present or (lambda i: True)
        self.overrides: Dict[Oid, tuple] = {}

    def present(self, i: int) -> bool:
        return bool(self._present(i))

    def get(self, oid: Oid) -> Optional[tuple]:
        if oid in self.overrides:
            return self.overrides[oid]
        i = self.index.get(oid)
        if i is None or not self.present(i):
            return None
        return self.universe[i][1]

    def successor(self, oid: Oid) -> Optional[Tuple[Oid, tuple]]:
        for i, (k, v) in enumerate(self.universe):
            if k > oid and self.present(i):
                return k, self.overrides.get(k, v)
        return None

    def contents(self) -> List[Tuple[Oid, tuple]]:
        return [(k, self.overrides.get(k, v)) for i, (k, v) in enumerate(self.universe)
                if self.present(i)]


class BulkPolicy:
    """
    Conformant GETBULK truncation policies (RFC 3416 4.2.3):
      full      : max-repetitions rows
      rows(k)   : at most k rows (k >= 1)
      partial(j): full, but the last row is cut after j bindings (1 <= j < R)
      eom_stop  : stop after the first row consisting only of endOfMibView
    """

    def __init__(self, kind: str = "full", k: int = 0) -> None:
        self.kind, self.k = kind, k


class Agent:
    def __init__(self, db: Database, version: int = 1, community: bytes = b"public",
                 bulk_policy: Optional[BulkPolicy] = None) -> None:
        self.db = db
        self.version = version
        self.community = community
        self.bulk_policy = bulk_policy or BulkPolicy()
        self.requests: List[Pdu] = []
        self.raw_requests: List[bytes] = []
        self.sets: List[Tuple[Oid, tuple]] = []
        # hooks
        self.tamper: Optional[Callable[[Pdu, Pdu], Pdu]] = None
        self.error: Optional[Tuple[int, int]] = None  # scripted (status, index)
        self.rid_offset = 0
        self.flags: set = set()   # run-signature facts (see known_findings.json)
        self.reply_version: Optional[int] = None
        self.reply_community: Optional[bytes] = None
        self.response_form = 0

    # ------------------------------------------------------------------ PDUs
    def respond_pdu(self, req: Pdu, v1: bool = False) -> Pdu:
        self.requests.append(req)
        rid = req.request_id + self.rid_offset
        if self.error is not None:
            status, index = self.error
            resp = Pdu(ber.P_RESPONSE, rid, status, index, list(req.varbinds))
        elif req.tag == ber.P_GET:
            resp = self._get(req, rid, v1)
        elif req.tag == ber.P_GETNEXT:
            resp = self._getnext(req, rid, v1)
        elif req.tag == ber.P_BULK and not v1:
            resp = self._bulk(req, rid)
        elif req.tag == ber.P_SET:
            resp = self._set(req, rid)
        else:
            resp = Pdu(ber.P_RESPONSE, rid, 5, 0, list(req.varbinds))
        if self.tamper is not None:
            resp = self.tamper(req, resp)
        return resp

    def _get(self, req: Pdu, rid: int, v1: bool) -> Pdu:
        out = []
        for pos, (oid, _) in enumerate(req.varbinds):
            val = self.db.get(oid)
            if val is None:
                if v1:
                    return Pdu(ber.P_RESPONSE, rid, 2, pos + 1, list(req.varbinds))
                val = NSI
            out.append((oid, val))
        return Pdu(ber.P_RESPONSE, rid, 0, 0, out)

    def _getnext(self, req: Pdu, rid: int, v1: bool) -> Pdu:
        out = []
        for pos, (oid, _) in enumerate(req.varbinds):
            nxt = self.db.successor(oid)
            if nxt is None:
                if v1:
                    return Pdu(ber.P_RESPONSE, rid, 2, pos + 1, list(req.varbinds))
                out.append((oid, EOMV))
            else:
                out.append(nxt)
        seen_eomv = False
        for _, v in out:
            if v == EOMV:
                seen_eomv = True
            elif seen_eomv:
                self.flags.add("getnext:eomv-before-live")
                self.flags.add(("getnext:eomv-before-live", len(self.requests)))
        return Pdu(ber.P_RESPONSE, rid, 0, 0, out)

    def _bulk(self, req: Pdu, rid: int) -> Pdu:
        total = len(req.varbinds)
        n = max(min(req.f1, total), 0)
        m = max(req.f2, 0)
        r = total - n
        out = []
        for oid, _ in req.varbinds[:n]:
            nxt = self.db.successor(oid)
            out.append(nxt if nxt is not None else (oid, EOMV))
        rows: List[List[Tuple[Oid, tuple]]] = []
        cursor = [oid for oid, _ in req.varbinds[n:]]
        pol = self.bulk_policy
        max_rows = m
        if pol.kind == "rows":
            max_rows = min(m, max(pol.k, 1))
        if r > 0:
            for _ in range(max_rows):
                row = []
                for c in range(r):
                    nxt = self.db.successor(cursor[c])
                    if nxt is None:
                        row.append((cursor[c], EOMV))
                    else:
                        row.append(nxt)
                        cursor[c] = nxt[0]
                rows.append(row)
                if pol.kind == "eom_stop" and all(v == EOMV for _, v in row):
                    break
        if pol.kind == "partial" and rows and r > 1:
            j = max(1, min(pol.k, r - 1))
            rows[-1] = rows[-1][:j]
            self.flags.add("bulk:partial-row")
        for row in rows:
            out.extend(row)
        if r >= 2:
            reps = out[n:]
            oids = [o for o, _ in reps]
            if len(set(oids)) != len(oids):
                self.flags.add("bulk:duplicate-oid")
            seen_eomv = False
            for _, v in reps:
                if v == EOMV:
                    seen_eomv = True
                elif seen_eomv:
                    self.flags.add("bulk:eomv-before-live")
        return Pdu(ber.P_RESPONSE, rid, 0, 0, out)

    def _set(self, req: Pdu, rid: int) -> Pdu:
        for oid, val in req.varbinds:
            self.sets.append((oid, val))
            self.db.overrides[oid] = val
        return Pdu(ber.P_RESPONSE, rid, 0, 0, list(req.varbinds))

    # ------------------------------------------------------- community level
    def handle(self, data: bytes) -> bytes:
        self.raw_requests.append(bytes(data))
        msg = ber.dec_community_msg(data)
        if msg.version != self.version or msg.community != self.community:
            raise AssertionError("reference agent: request with wrong version/community")
        resp = self.respond_pdu(msg.pdu, v1=(self.version == 0))
        return self.encode_response(resp)

    def encode_response(self, resp: Pdu) -> bytes:
        form = self.response_form
        pdu = ber.enc_pdu(resp.tag, resp.request_id, resp.f1, resp.f2, resp.varbinds, form)
        version = self.version if self.reply_version is None else self.reply_version
        community = self.community if self.reply_community is None else self.reply_community
        return ber.enc_community_msg(version, community, pdu, form)


def expected_walk(db: Database, roots: Sequence[Oid]) -> List[Tuple[Oid, tuple]]:
    """Instances strictly below some root (the root instance itself excluded)."""
    out = []
    for oid, val in db.contents():
        if any(len(oid) > len(r) and oid[:len(r)] == r for r in roots):
            out.append((oid, val))
    return out
