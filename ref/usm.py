"""
Reference SNMPv3 authoritative engine: RFC 3412 section 6 / 7.2, RFC 3414
sections 2.6, 3.2, 4, 6, 7, 11.2 and appendix A.2.  Independent of puresnmp
(hashlib / hmac from the standard library, ref.ber for the encoding).

The HMAC is computed over the message *as received / as sent* with the
msgAuthenticationParameters octets zeroed in place.
"""

import hashlib
import hmac
from typing import Any, Callable, Dict, List, NamedTuple, Optional, Tuple

from . import ber
from .agent import Agent
from .ber import Pdu

HASHES = {"md5": hashlib.md5, "sha1": hashlib.sha1}

OID_UNSUPPORTED_LEVEL = ber.oid("1.3.6.1.6.3.15.1.1.1.0")
OID_NOT_IN_WINDOW = ber.oid("1.3.6.1.6.3.15.1.1.2.0")
OID_UNKNOWN_USER = ber.oid("1.3.6.1.6.3.15.1.1.3.0")
OID_UNKNOWN_ENGINE = ber.oid("1.3.6.1.6.3.15.1.1.4.0")
OID_WRONG_DIGEST = ber.oid("1.3.6.1.6.3.15.1.1.5.0")
OID_DECRYPT_ERROR = ber.oid("1.3.6.1.6.3.15.1.1.6.0")


def password_to_key(proto: str, password: bytes) -> bytes:
    """RFC 3414 A.2: hash of the password cyclically expanded to 2^20 octets."""
    if not password:
        raise ValueError("empty password")
    h = HASHES[proto]()
    total = 1048576
    reps = total // len(password) + 1
    buf = (password * reps)[:total]
    h.update(buf)
    return h.digest()


_KEY_CACHE: Dict[Tuple[str, bytes, bytes], bytes] = {}


def localised_key(proto: str, password: bytes, engine_id: bytes) -> bytes:
    k = (proto, bytes(password), bytes(engine_id))
    if k not in _KEY_CACHE:
        ku = password_to_key(proto, bytes(password))
        _KEY_CACHE[k] = HASHES[proto](ku + bytes(engine_id) + ku).digest()
    return _KEY_CACHE[k]


def hmac96(proto: str, key: bytes, message: bytes) -> bytes:
    return hmac.new(key, message, HASHES[proto]).digest()[:12]


class User(NamedTuple):
    name: bytes
    auth_proto: Optional[str] = None      # "md5" | "sha1" | None
    auth_password: bytes = b""
    priv_password: Optional[bytes] = None  # privacy enabled when not None
    cipher: Any = None                     # object with encrypt/decrypt (see StreamCipher)


class StreamCipher:
    """
    Harness privacy transform: data XOR a key stream derived from
    (key, boots, time, salt).  An involution, so decrypt inverts encrypt.
    Salt: 8 octets from a counter.
    """

    def __init__(self) -> None:
        self.counter = 0
        self.calls: List[dict] = []

    @staticmethod
    def stream(key: bytes, boots: int, time: int, salt: bytes, n: int) -> bytes:
        out = b""
        block = 0
        seed = bytes(key) + str((boots, time)).encode() + bytes(salt)
        while len(out) < n:
            out += hashlib.sha256(seed + block.to_bytes(4, "big")).digest()
            block += 1
        return out[:n]

    def encrypt(self, key: bytes, engine_id: bytes, boots: int, time: int, data: bytes) -> Tuple[bytes, bytes]:
        self.counter += 1
        salt = self.counter.to_bytes(8, "big")
        ks = self.stream(key, boots, time, salt, len(data))
        ct = bytes(a ^ b for a, b in zip(data, ks))
        self.calls.append({"op": "enc", "key": bytes(key), "engine_id": bytes(engine_id), "boots": boots,
                           "time": time, "salt": salt, "data": bytes(data), "out": ct})
        return ct, salt

    def decrypt(self, key: bytes, engine_id: bytes, boots: int, time: int, salt: bytes, data: bytes) -> bytes:
        ks = self.stream(key, boots, time, salt, len(data))
        pt = bytes(a ^ b for a, b in zip(data, ks))
        self.calls.append({"op": "dec", "key": bytes(key), "engine_id": bytes(engine_id), "boots": boots,
                           "time": time, "salt": bytes(salt), "data": bytes(data), "out": pt})
        return pt


class Verdict(NamedTuple):
    accepted: bool
    reason: str
    msg: Optional[ber.V3Msg]
    level: int          # 0 noAuthNoPriv, 1 authNoPriv, 3 authPriv (msgFlags & 3)
    reportable: bool
    pdu: Optional[Pdu]
    user: bytes


class Engine:
    """Authoritative SNMP engine in front of a reference `Agent`."""

    def __init__(self, agent: Agent, engine_id: bytes, users: List[User], boots: int = 1,
                 clock: Optional[Callable[[], int]] = None, max_size: int = 65507) -> None:
        self.agent = agent
        self.engine_id = bytes(engine_id)
        self.users = {u.name: u for u in users}
        self.boots = boots
        self.clock = clock or (lambda: 0)
        self.max_size = max_size
        self.log: List[Verdict] = []
        self.raw_requests: List[bytes] = []
        self.unknown_engine_ids = 0
        self.response_form = 0
        self.pad_context_name: Optional[bytes] = None   # override of the echoed context name
        # response tamper hook: fn(stage, value) -> value; stages: "pdu"
        self.tamper_pdu: Optional[Callable[[Pdu], Pdu]] = None
        self.msg_id_offset = 0
        self.discovery_without_bindings = False

    # ----------------------------------------------------------------- keys
    def auth_key(self, user: User) -> bytes:
        assert user.auth_proto
        return localised_key(user.auth_proto, user.auth_password, self.engine_id)

    def priv_key(self, user: User) -> bytes:
        assert user.auth_proto and user.priv_password is not None
        return localised_key(user.auth_proto, user.priv_password, self.engine_id)

    # -------------------------------------------------------------- sending
    def build(self, msg_id: int, level: int, user: User, scoped: bytes, reportable: bool = False,
              boots: Optional[int] = None, time: Optional[int] = None) -> bytes:
        """Secure *scoped* (an encoded scopedPDU) at *level* for *user*."""
        form = self.response_form
        boots = self.boots if boots is None else boots
        time = self.clock() if time is None else time
        flags = level + (4 if reportable else 0)
        priv_params = b""
        msg_data = scoped
        if level == 3:
            ct, salt = user.cipher.encrypt(self.priv_key(user), self.engine_id, boots, time, scoped)
            msg_data = ber.tlv(ber.T_STR, ct, form)
            priv_params = salt
        auth = b"\x00" * 12 if level >= 1 else b""
        usm = ber.enc_usm(self.engine_id, boots, time, user.name, auth, priv_params, form)
        whole = ber.enc_v3_msg(msg_id, self.max_size, flags, 3, usm, msg_data, form)
        if level >= 1:
            whole = sign(whole, user.auth_proto, self.auth_key(user))
        return whole

    def report(self, msg_id: int, request_id: int, oid: ber.Oid, counter: int, user_name: bytes = b"",
               level: int = 0, user: Optional[User] = None) -> bytes:
        vbs = [] if self.discovery_without_bindings else [(oid, ("c32", counter))]
        pdu = ber.enc_pdu(ber.P_REPORT, request_id, 0, 0, vbs, self.response_form)
        scoped = ber.enc_scoped(self.engine_id, b"", pdu, self.response_form)
        who = user if (user is not None and level) else User(user_name)
        return self.build(msg_id + self.msg_id_offset, level if user is not None else 0, who, scoped)

    # ------------------------------------------------------------ receiving
    def handle(self, data: bytes) -> bytes:
        self.raw_requests.append(bytes(data))
        try:
            msg = ber.dec_v3_msg(data)
        except ber.BerError as exc:
            self.log.append(Verdict(False, "malformed: %s" % exc, None, 0, False, None, b""))
            raise AssertionError("reference engine: malformed request: %s" % exc)
        level = msg.flags % 4
        reportable = (msg.flags // 4) % 2 == 1
        rid = msg.scoped.pdu.request_id if msg.scoped is not None else 0

        def reject(reason: str, oid: ber.Oid, **kw) -> bytes:
            self.log.append(Verdict(False, reason, msg, level, reportable,
                                    msg.scoped.pdu if msg.scoped else None, msg.usm.user))
            return self.report(msg.msg_id, rid, oid, 1, msg.usm.user, **kw)

        if msg.version != 3 or msg.sec_model != 3:
            self.log.append(Verdict(False, "version/security model", msg, level, reportable, None, msg.usm.user))
            raise AssertionError("reference engine: not an SNMPv3/USM message")
        if level == 2:
            return reject("invalid msgFlags (priv without auth)", OID_UNSUPPORTED_LEVEL)
        if msg.usm.engine_id != self.engine_id:
            # discovery (RFC 3414 section 4) or a wrong engine id
            self.unknown_engine_ids += 1
            is_probe = (msg.usm.engine_id == b"" and msg.usm.user == b"" and level == 0
                        and msg.scoped is not None and msg.scoped.pdu.varbinds == [])
            self.log.append(Verdict(is_probe, "discovery" if is_probe else "unknown engine id", msg, level,
                                    reportable, msg.scoped.pdu if msg.scoped else None, msg.usm.user))
            return self.report(msg.msg_id, rid, OID_UNKNOWN_ENGINE, self.unknown_engine_ids)
        user = self.users.get(msg.usm.user)
        if user is None:
            return reject("unknown user", OID_UNKNOWN_USER)
        user_level = 0 if not user.auth_proto else (3 if user.priv_password is not None else 1)
        if level > user_level:
            return reject("unsupported security level", OID_UNSUPPORTED_LEVEL)
        if level >= 1:
            if len(msg.usm.auth) != 12:
                return reject("digest is not 12 octets", OID_WRONG_DIGEST)
            if not verify(data, msg, user.auth_proto, self.auth_key(user)):
                return reject("wrong digest", OID_WRONG_DIGEST)
            now = self.clock()
            if (msg.usm.boots != self.boots or msg.usm.time > now + 150 or msg.usm.time < now - 150
                    or self.boots == 2147483647):
                return reject("not in time window (boots %d/%d time %d/%d)" % (
                    msg.usm.boots, self.boots, msg.usm.time, now), OID_NOT_IN_WINDOW, level=1, user=user)
        scoped = msg.scoped
        if level == 3:
            if msg.encrypted is None:
                return reject("plaintext scoped PDU at authPriv", OID_DECRYPT_ERROR)
            try:
                plain = user.cipher.decrypt(self.priv_key(user), self.engine_id, msg.usm.boots, msg.usm.time,
                                            msg.usm.priv, msg.encrypted)
                scoped = ber.dec_scoped(plain, 0, None)
            except ber.BerError:
                return reject("decryption error", OID_DECRYPT_ERROR)
        elif msg.encrypted is not None:
            return reject("encrypted payload without priv flag", OID_DECRYPT_ERROR)
        assert scoped is not None
        self.log.append(Verdict(True, "ok", msg, level, reportable, scoped.pdu, msg.usm.user))
        resp = self.agent.respond_pdu(scoped.pdu)
        if self.tamper_pdu is not None:
            resp = self.tamper_pdu(resp)
        form = self.response_form
        pdu = ber.enc_pdu(resp.tag, resp.request_id, resp.f1, resp.f2, resp.varbinds, form)
        ctx_name = scoped.ctx_name if self.pad_context_name is None else self.pad_context_name
        enc = ber.enc_scoped(scoped.ctx_engine_id, ctx_name, pdu, form)
        return self.build(msg.msg_id + self.msg_id_offset, level, user, enc)


def zero_auth(data: bytes, span: Tuple[int, int]) -> bytes:
    return bytes(data[:span[0]]) + b"\x00" * (span[1] - span[0]) + bytes(data[span[1]:])


def sign(whole: bytes, proto: str, key: bytes) -> bytes:
    msg = ber.dec_v3_msg(whole)
    span = msg.usm.auth_span
    assert span[1] - span[0] == 12
    digest = hmac96(proto, key, zero_auth(whole, span))
    return bytes(whole[:span[0]]) + digest + bytes(whole[span[1]:])


def verify(whole: bytes, msg: ber.V3Msg, proto: str, key: bytes) -> bool:
    span = msg.usm.auth_span
    expected = hmac96(proto, key, zero_auth(whole, span))
    return hmac.compare_digest(expected, bytes(whole[span[0]:span[1]]))


def len127_spots(data: bytes) -> List[str]:
    """
    Run-signature of known finding F08: names of the TLVs of an SNMPv3 message
    that puresnmp re-encodes when it verifies the digest (message, header,
    security parameters and their fields, msgData, context ids, PDU) whose
    content is exactly 127 octets long.
    """
    spots = []

    def note(name, cs, ce):
        if ce - cs == 127:
            spots.append(name)

    try:
        tag, cs, ce = ber.read_tlv(data, 0)
        note("message", cs, ce)
        kids = ber.read_children(data, cs, ce)
        note("header", kids[1][2], kids[1][3])
        for i, k in enumerate(ber.read_children(data, kids[1][2], kids[1][3])):
            note("header[%d]" % i, k[2], k[3])
        note("securityParameters", kids[2][2], kids[2][3])
        utag, ucs, uce = ber.read_tlv(data, kids[2][2], kids[2][3])
        note("usm", ucs, uce)
        for i, k in enumerate(ber.read_children(data, ucs, uce)):
            note("usm[%d]" % i, k[2], k[3])
        note("msgData", kids[3][2], kids[3][3])
        if kids[3][1] == ber.T_SEQ:
            for i, k in enumerate(ber.read_children(data, kids[3][2], kids[3][3])):
                note("scoped[%d]" % i, k[2], k[3])
    except (ber.BerError, IndexError):
        pass
    return spots
