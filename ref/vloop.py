"""
Virtual-time asyncio event loop with scripted datagram endpoints (C13, C19).

`VLoop` is a real `asyncio.SelectorEventLoop` whose selector never blocks:
`select(timeout)` advances a virtual clock by *timeout* and reports no I/O.
`create_datagram_endpoint` hands out `ScriptedTransport`s whose behaviour per
endpoint is given by a script (list of outcomes).  Everything else -- tasks,
futures, `call_later`, `wait_for` -- is the real asyncio machinery, so the
real `puresnmp.transport.send_udp` / `SNMPClientProtocol` run unmodified.
"""
import asyncio
import selectors
from typing import Any, Callable, List, Optional, Tuple


class Deadlock(Exception):
    pass


class _VSelector(selectors.BaseSelector):
    def __init__(self, loop_ref):
        self._loop_ref = loop_ref
        self._map = {}

    def register(self, fileobj, events, data=None):
        key = selectors.SelectorKey(fileobj, fileobj if isinstance(fileobj, int) else fileobj.fileno(), events, data)
        self._map[fileobj] = key
        return key

    def unregister(self, fileobj):
        return self._map.pop(fileobj)

    def modify(self, fileobj, events, data=None):
        self.unregister(fileobj)
        return self.register(fileobj, events, data)

    def select(self, timeout=None):
        loop = self._loop_ref()
        if timeout is None:
            raise Deadlock("event loop would block forever (nothing scheduled)")
        if timeout > 0:
            loop.vtime += timeout
        return []

    def close(self):
        self._map.clear()

    def get_map(self):
        return self._map


# per-attempt outcomes
REPLY, NO_REPLY, LATE_REPLY, TWO_REPLIES, ICMP_ERROR, CONN_LOST, CANCEL = range(7)
OUTCOME_NAMES = ["reply", "no-reply", "late-reply", "two-replies", "icmp-error", "connection-lost", "cancelled-by-caller"]


class ScriptedTransport(asyncio.DatagramTransport):
    def __init__(self, loop: "VLoop", protocol, index: int, outcome: int, timeout_hint: float, remote_addr):
        super().__init__()
        self.loop = loop
        self.protocol = protocol
        self.index = index
        self.outcome = outcome
        self.hint = timeout_hint
        self.remote_addr = remote_addr
        self.sent: List[bytes] = []
        self.closed = False
        self.aborted = False
        self.lost_called = False
        self.opened_at = loop.vtime

    # ---- transport API
    def get_extra_info(self, name, default=None):
        if name == "peername":
            return self.remote_addr
        return default

    def is_closing(self):
        return self.closed or self.aborted

    def sendto(self, data, addr=None):
        if self.is_closing():
            return
        self.sent.append(bytes(data))
        self.loop.log.append(("sendto", self.index, bytes(data), self.loop.vtime))
        if len(self.sent) == 1:
            self._schedule()

    def close(self):
        if self.is_closing():
            return
        self.closed = True
        self.loop.log.append(("close", self.index, self.loop.vtime))
        self.loop.call_soon(self._lost, None)

    def abort(self):
        if self.is_closing():
            return
        self.aborted = True
        self.loop.log.append(("abort", self.index, self.loop.vtime))
        self.loop.call_soon(self._lost, None)

    def _lost(self, exc):
        if not self.lost_called:
            self.lost_called = True
            self.protocol.connection_lost(exc)

    # ---- scripted network
    def _deliver(self, data):
        if self.is_closing():
            return  # a closed socket receives nothing
        self.loop.log.append(("deliver", self.index, bytes(data), self.loop.vtime))
        self.protocol.datagram_received(data, self.remote_addr)

    def _error(self):
        if self.is_closing():
            return
        self.loop.log.append(("icmp", self.index, self.loop.vtime))
        self.protocol.error_received(ConnectionRefusedError(111, "Connection refused"))

    def _conn_lost(self):
        if self.is_closing():
            return
        self.loop.log.append(("lost", self.index, self.loop.vtime))
        self.closed = True
        self._lost(OSError(9, "transport died"))

    def _schedule(self):
        reply = self.loop.reply_for(self.index, self.sent[0])
        t = self.hint
        if self.outcome == REPLY:
            self.loop.call_later(t / 2.0, self._deliver, reply)
        elif self.outcome == LATE_REPLY:
            self.loop.call_later(t + 0.5, self._deliver, reply)
        elif self.outcome == TWO_REPLIES:
            self.loop.call_later(t / 4.0, self._deliver, reply)
            self.loop.call_later(t / 4.0 + 0.05, self._deliver, b"second-" + reply)
        elif self.outcome == ICMP_ERROR:
            self.loop.call_later(t / 4.0, self._error)
        elif self.outcome == CONN_LOST:
            self.loop.call_later(t / 4.0, self._conn_lost)
        elif self.outcome == CANCEL:
            self.loop.call_later(t / 4.0, self.loop.cancel_caller)


class VLoop(asyncio.SelectorEventLoop):
    def __init__(self, script: List[int], timeout_hint: float):
        import weakref
        self.vtime = 0.0
        super().__init__(selector=_VSelector(weakref.ref(self)))
        self.script = list(script)
        self.hint = timeout_hint
        self.transports: List[ScriptedTransport] = []
        self.log: List[tuple] = []
        self.loop_errors: List[dict] = []
        self.set_exception_handler(lambda loop, ctx: self.loop_errors.append(ctx))

    def time(self):
        return self.vtime

    def cancel_caller(self):
        self.log.append(("cancel", self.vtime))
        if getattr(self, "caller_task", None) is not None:
            self.caller_task.cancel()

    def reply_for(self, index: int, request: bytes) -> bytes:
        return b"reply-%d-to-" % index + request

    async def create_datagram_endpoint(self, protocol_factory, local_addr=None, remote_addr=None, **kw):
        index = len(self.transports)
        outcome = self.script[index] if index < len(self.script) else NO_REPLY
        protocol = protocol_factory()
        transport = ScriptedTransport(self, protocol, index, outcome, self.hint, remote_addr)
        self.transports.append(transport)
        self.log.append(("open", index, self.vtime))
        protocol.connection_made(transport)
        return transport, protocol

    def settle(self):
        """Let pending callbacks run (control is 'back in the event loop')."""
        async def _nop():
            await asyncio.sleep(0)
            await asyncio.sleep(0)
        self.run_until_complete(_nop())
